//! Shared plumbing of the subscription properties C22 / C26 / C27: a per-case `Subscriptions`
//! object driven at synthetic times, one variable of the fixture address space to monitor, and the
//! canonical rendering of publish responses.
use crate::fixtures::ServerFixture;
use chrono::Duration as CDuration;
use opcua::server::diagnostics::ServerDiagnostics;
use opcua::server::prelude::*;
use opcua::server::subscriptions::subscription::Subscription;
use opcua::sync::RwLock;
use opcua::verif_hooks::subs::VSubscriptions;
use std::sync::atomic::{AtomicI64, Ordering};
use std::sync::Arc;

pub type Time = chrono::DateTime<chrono::Utc>;

static NEXT_VALUE: AtomicI64 = AtomicI64::new(1);

pub fn var_id() -> NodeId {
    NodeId::new(2, "verif-subs-var")
}

pub fn ensure_variable(fx: &ServerFixture) {
    let mut asp = fx.address_space.write();
    if !asp.node_exists(&var_id()) {
        VariableBuilder::new(&var_id(), "verif-subs-var", "verif-subs-var")
            .data_type(DataTypeId::Int64)
            .value(0i64)
            .organized_by(ObjectId::ObjectsFolder)
            .insert(&mut asp);
    }
}

/// One published response in canonical form.
pub struct Resp {
    pub rid: u32,
    pub sub: u32,
    /// "ka" keep-alive, "dc" data change, "sc" status change BadTimeout, "sc?" other status change,
    /// "to" BadTimeout service fault, "f?" other fault, "??" anything else
    pub kind: String,
    pub seq: u32,
}

pub fn render_resps(resps: &[Resp], with_sub: bool) -> String {
    let v: Vec<String> = resps
        .iter()
        .map(|r| {
            if with_sub {
                format!("{}:{}:{}:{}", r.rid, r.sub, r.kind, r.seq)
            } else {
                format!("{}:{}:{}", r.rid, r.kind, r.seq)
            }
        })
        .collect();
    format!("[{}]", v.join(","))
}

pub fn msg_kind(m: &NotificationMessage) -> String {
    match &m.notification_data {
        None => "ka".to_string(),
        Some(list) => {
            let sc_id: NodeId = ObjectId::StatusChangeNotification_Encoding_DefaultBinary.into();
            let dc_id: NodeId = ObjectId::DataChangeNotification_Encoding_DefaultBinary.into();
            let ev_id: NodeId = ObjectId::EventNotificationList_Encoding_DefaultBinary.into();
            if list.iter().any(|e| e.node_id == sc_id) {
                let ok = list.iter().filter(|e| e.node_id == sc_id).all(|e| {
                    e.decode_inner::<StatusChangeNotification>(&DecodingOptions::default())
                        .map(|s| s.status == StatusCode::BadTimeout)
                        .unwrap_or(false)
                });
                if ok { "sc" } else { "sc?" }.to_string()
            } else if !list.is_empty() && list.iter().all(|e| e.node_id == dc_id || e.node_id == ev_id) {
                "dc".to_string()
            } else {
                "??".to_string()
            }
        }
    }
}

pub struct World {
    pub subs: VSubscriptions,
    pub diagnostics: Arc<RwLock<ServerDiagnostics>>,
    /// latest time handed to the implementation
    pub last_now: Time,
}

impl World {
    pub fn new(fx: &ServerFixture, publish_request_timeout: i64) -> World {
        ensure_variable(fx);
        World {
            subs: VSubscriptions::new(100, publish_request_timeout),
            diagnostics: Arc::new(RwLock::new(ServerDiagnostics::default())),
            last_now: chrono::Utc::now(),
        }
    }

    /// `Subscription::new` (+ one Reporting monitored item with sampling interval −1 on the
    /// fixture variable when `item`), inserted into the session's `Subscriptions`.
    #[allow(clippy::too_many_arguments)]
    pub fn add_subscription(
        &mut self,
        fx: &ServerFixture,
        id: u32,
        enabled: bool,
        interval_ms: f64,
        life: u32,
        ka: u32,
        priority: u8,
        item: bool,
    ) {
        let mut s = Subscription::new(self.diagnostics.clone(), id, enabled, interval_ms, life, ka, priority);
        if item {
            let req = MonitoredItemCreateRequest {
                item_to_monitor: ReadValueId {
                    node_id: var_id(),
                    attribute_id: AttributeId::Value as u32,
                    index_range: UAString::null(),
                    data_encoding: QualifiedName::null(),
                },
                monitoring_mode: MonitoringMode::Reporting,
                requested_parameters: MonitoringParameters {
                    client_handle: id,
                    sampling_interval: -1.0,
                    filter: ExtensionObject::null(),
                    queue_size: 1,
                    discard_oldest: true,
                },
            };
            let ss = fx.server_state.read();
            let asp = fx.address_space.read();
            let now = chrono::Utc::now();
            let r = s.create_monitored_items(&ss, &asp, &now, TimestampsToReturn::Both, &[req]);
            assert!(r[0].status_code.is_good(), "monitored item: {}", r[0].status_code);
        }
        self.subs.insert(id, s);
        self.last_now = chrono::Utc::now();
    }

    /// a client write: a value the variable never had before
    pub fn write_variable(&mut self, fx: &ServerFixture) {
        let v = NEXT_VALUE.fetch_add(1, Ordering::SeqCst);
        let now = DateTime::now();
        let mut asp = fx.address_space.write();
        let ok = asp.set_variable_value(var_id(), Variant::Int64(v), &now, &now);
        assert!(ok);
    }

    /// A time at which the publishing interval of every present subscription has (`elapsed`) / has
    /// not elapsed since the implementation last saw it elapse.  Never goes backwards.
    pub fn time_for_tick(&mut self, elapsed: bool, interval_ms: f64) -> Time {
        let ids = self.subs.ids();
        let mut latest = None;
        for id in ids {
            let t = self.subs.get(id).unwrap().verif_last_time_publishing_interval_elapsed();
            latest = Some(match latest {
                None => t,
                Some(l) if t > l => t,
                Some(l) => l,
            });
        }
        let us = (interval_ms * 1000.0) as i64;
        // a subscription in state Creating ignores the time (its first tick always counts as
        // elapsed and does not restart the interval): do not use up its first interval
        let all_creating = !self.subs.is_empty()
            && self.subs.ids().iter().all(|id| self.subs.get(*id).unwrap().verif_state() == 1);
        let now = match latest {
            Some(l) if all_creating => l + CDuration::microseconds(us / 4),
            Some(l) if elapsed => l + CDuration::microseconds(us),
            // strictly inside the interval of every subscription (they were created within
            // microseconds of each other).  Every choice is relative to the time the implementation
            // last saw the interval elapse, so the clock may step back after an interval change.
            Some(l) => l + CDuration::microseconds(us / 2),
            None => self.last_now + CDuration::microseconds(if elapsed { us } else { 0 }),
        };
        self.last_now = now;
        now
    }

    pub fn tick(&mut self, fx: &ServerFixture, now: &Time) {
        let asp = fx.address_space.read();
        let _ = self.subs.tick(now, &asp, true);
    }

    pub fn publish_request(rid: u32, timestamp: DateTime, timeout_hint: u32) -> PublishRequest {
        PublishRequest {
            request_header: RequestHeader {
                authentication_token: NodeId::null(),
                timestamp,
                request_handle: rid,
                return_diagnostics: DiagnosticBits::empty(),
                audit_entry_id: UAString::null(),
                timeout_hint,
                additional_header: ExtensionObject::null(),
            },
            subscription_acknowledgements: None,
        }
    }

    pub fn publish(&mut self, fx: &ServerFixture, now: &Time, rid: u32) -> Result<(), StatusCode> {
        let asp = fx.address_space.read();
        let req = Self::publish_request(rid, DateTime::from(*now), 0);
        self.subs.enqueue_publish_request(now, rid, req, &asp)
    }

    pub fn take_responses(&mut self) -> Vec<Resp> {
        let mut out = Vec::new();
        if let Some(q) = self.subs.take_publish_responses() {
            for e in q {
                match e.response {
                    SupportedMessage::PublishResponse(p) => out.push(Resp {
                        rid: e.request_id,
                        sub: p.subscription_id,
                        kind: msg_kind(&p.notification_message),
                        seq: p.notification_message.sequence_number,
                    }),
                    SupportedMessage::ServiceFault(f) => out.push(Resp {
                        rid: e.request_id,
                        sub: 0,
                        kind: if f.response_header.service_result == StatusCode::BadTimeout { "to" } else { "f?" }.to_string(),
                        seq: 0,
                    }),
                    _ => out.push(Resp { rid: e.request_id, sub: 0, kind: "??".to_string(), seq: 0 }),
                }
            }
        }
        out
    }

    pub fn show_sub(&self, id: u32) -> String {
        match self.subs.get(id) {
            None => "st=-".to_string(),
            Some(s) => format!(
                "st={} life={} ka={} sent={} nq={} it={}",
                s.verif_state(),
                s.lifetime_counter(),
                s.keep_alive_counter(),
                crate::common::b(s.message_sent()),
                s.verif_notifications_len(),
                s.monitored_items_len()
            ),
        }
    }

    /// state of subscription 1, the request queue and the responses (C22 result line)
    pub fn show_single(&self, resps: &[Resp]) -> String {
        let rq: Vec<String> = self.subs.publish_request_ids().iter().map(|r| r.to_string()).collect();
        format!("{} rq=[{}] resp={}", self.show_sub(1), rq.join(","), render_resps(resps, false))
    }
}
