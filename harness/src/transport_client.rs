//! The client's receive path (`client::transport::core::TransportState`) driven without a socket
//! through `verif_hooks::transport::VClientTransport`.  Shared by the C12 and C10 runners.
use crate::common::*;
use crate::props::c11;
use crate::props::c12::{self, CI};
use opcua::core::comms::message_chunk::{MessageChunkType, MessageIsFinalType};
use opcua::core::comms::secure_channel::SecureChannel;
use opcua::core::comms::tcp_codec::Message;
use opcua::core::supported_message::SupportedMessage;
use opcua::types::*;
use opcua::verif_hooks::transport::{VClientSender, VClientTransport};
use parking_lot::RwLock;
use std::collections::BTreeMap;
use std::panic::{catch_unwind, AssertUnwindSafe};
use std::sync::Arc;
use tokio::task::JoinHandle;

pub struct Cli {
    rt: tokio::runtime::Runtime,
    t: VClientTransport,
    sender: VClientSender,
    chan: u32,
    max_pending: usize,
    closed: bool,
    body: Vec<u8>,
    tasks: BTreeMap<u32, JoinHandle<Result<SupportedMessage, StatusCode>>>,
    // reference bookkeeping, from the property text
    fed: BTreeMap<u32, Vec<(CI, bool)>>, // chunks delivered for a pending request (ci, is_final)
    max_accepted: u32,
    completed: Vec<Vec<CI>>,
}

fn response_bytes() -> Vec<u8> {
    let m: SupportedMessage = ServiceFault {
        response_header: ResponseHeader::new_service_result(&RequestHeader::new(&NodeId::null(), &DateTime::null(), 7), StatusCode::BadNothingToDo),
    }
    .into();
    c11::message_bytes(&m).1
}

impl Cli {
    pub fn new(max_pending: usize, chan: u32) -> Cli {
        let rt = tokio::runtime::Builder::new_current_thread().enable_all().build().unwrap();
        let mut sc: SecureChannel = c11::client_channel(chan, 1, true);
        sc.set_secure_channel_id(chan);
        let (t, sender) = VClientTransport::new(Arc::new(RwLock::new(sc)), 16, max_pending, 1000);
        Cli {
            rt,
            t,
            sender,
            chan,
            max_pending,
            closed: false,
            body: response_bytes(),
            tasks: BTreeMap::new(),
            fed: BTreeMap::new(),
            max_accepted: 0,
            completed: Vec::new(),
        }
    }

    fn tail(&self) -> String {
        let mut p = self.t.pending();
        p.sort();
        let l: Vec<String> = p.iter().map(|(id, n)| format!("{}:{}", id, n)).collect();
        format!("last={} pend=[{}]", self.t.last_received_sequence_number(), l.join(","))
    }

    /// C10 on the client: never more chunks held for one response than `max_pending_incoming`
    fn bound_oracle(&self) -> Verdict {
        if self.max_pending > 0 {
            for (id, n) in self.t.pending() {
                if n > self.max_pending {
                    return Verdict::fail(
                        "client_pending_bounded",
                        "over-max-pending",
                        format!("request {} holds {} chunks, limit {}", id, n, self.max_pending),
                    );
                }
            }
        }
        Verdict::Ok
    }

    pub fn step(&mut self, toks: &[&str]) -> (String, Verdict) {
        match toks {
            ["req"] => {
                let sender = self.sender.clone();
                let payload: SupportedMessage = ReadRequest {
                    request_header: RequestHeader::new(&NodeId::null(), &DateTime::null(), 1),
                    max_age: 0.0,
                    timestamps_to_return: TimestampsToReturn::Both,
                    nodes_to_read: None,
                }
                .into();
                let h = self.rt.spawn(async move { sender.send(payload, std::time::Duration::from_secs(3600)).await });
                let t = &mut self.t;
                let got = self.rt.block_on(async { t.wait_for_outgoing_message().await });
                match got {
                    Some((_, id)) => {
                        self.tasks.insert(id, h);
                        self.fed.insert(id, Vec::new());
                        (format!("ok id={}", id), Verdict::Ok)
                    }
                    None => ("err no-request".to_string(), Verdict::fail("setup", "-", "request not taken")),
                }
            }
            ["cchunk", ci, f] => {
                let (Some(Some(c)), Some(fin)) = (c12::parse_ci(ci), c12::fin_of(f)) else {
                    return ("bad-op".to_string(), Verdict::Ok);
                };
                if self.closed {
                    return ("err closed".to_string(), Verdict::Ok);
                }
                let chunk = c12::msg_chunk(c.chan, c.seq, c.req, fin, MessageChunkType::Message, &self.body);
                let known = self.fed.contains_key(&c.req);
                if known {
                    match fin {
                        MessageIsFinalType::FinalError => {}
                        _ => self.fed.get_mut(&c.req).unwrap().push((c, fin == MessageIsFinalType::Final)),
                    }
                }
                let last_before = self.t.last_received_sequence_number();
                // class tag from the input: a multi-chunk message that contains sequence number u32::MAX
                let class = match self.fed.get(&c.req) {
                    Some(v) if v.len() > 1 && v.iter().any(|(x, _)| x.seq == u32::MAX) => "merge-seq-max",
                    _ if last_before == u32::MAX => "last-at-max",
                    _ => "-",
                };
                let res = {
                    let t = &mut self.t;
                    catch_unwind(AssertUnwindSafe(|| t.handle_incoming_message(Message::Chunk(chunk))))
                };
                let r = match res {
                    Err(_) => return ("panic".to_string(), Verdict::fail("no_panic", class, "client process_chunk panicked")),
                    Ok(r) => r,
                };
                // let the request futures observe their callbacks
                self.rt.block_on(async { tokio::task::yield_now().await });
                let mut outcome: Option<Result<SupportedMessage, StatusCode>> = None;
                if let Some(h) = self.tasks.get(&c.req) {
                    if h.is_finished() {
                        let h = self.tasks.remove(&c.req).unwrap();
                        outcome = Some(self.rt.block_on(h).unwrap_or(Err(StatusCode::BadInternalError)));
                    }
                }
                let tail = self.tail();
                let mut v = self.bound_oracle();
                let line = match (&r, &outcome) {
                    (Err(e), _) => {
                        self.closed = true;
                        self.fed.remove(&c.req);
                        format!("err {} {}", e.name(), tail)
                    }
                    (Ok(()), Some(Ok(_))) => {
                        // completed: the property's conditions on what was delivered for this request
                        let fed = self.fed.remove(&c.req).unwrap_or_default();
                        let mut sorted: Vec<CI> = fed.iter().map(|x| x.0).collect();
                        sorted.sort_by_key(|x| x.seq);
                        let first = sorted[0].seq;
                        // the consecutive run starting at the smallest number is the message
                        let mut run: Vec<CI> = Vec::new();
                        if fed.len() == 1 {
                            run.push(sorted[0]);
                        } else {
                            let mut expect = first as u64;
                            for x in &sorted {
                                if x.seq as u64 == expect {
                                    run.push(*x);
                                    expect += 1;
                                }
                            }
                        }
                        let last_after = self.t.last_received_sequence_number();
                        if let Verdict::Ok = v {
                            v = if !self.completed.is_empty() && first <= self.max_accepted {
                                Verdict::fail("newer_than_accepted", class, format!("first {} not above {}", first, self.max_accepted))
                            } else if self.chan != 0 && run.iter().any(|x| x.chan != self.chan) {
                                Verdict::fail("accepts_only", class, "foreign channel id")
                            } else if last_after as u64 != first as u64 + run.len() as u64 - 1 {
                                Verdict::fail("accepts_only", class, format!("last {} for a run of {} from {}", last_after, run.len(), first))
                            } else if self.completed.contains(&run) {
                                Verdict::fail("replay_rejected", class, "a response accepted before was accepted again")
                            } else {
                                Verdict::Ok
                            };
                        }
                        self.max_accepted = last_after;
                        self.completed.push(run);
                        format!("ok completed req={} {}", c.req, tail)
                    }
                    (Ok(()), Some(Err(e))) => {
                        self.fed.remove(&c.req);
                        if *e == StatusCode::BadCommunicationError && fin == MessageIsFinalType::FinalError {
                            format!("ok aborted {}", tail)
                        } else {
                            format!("ok dropped {} {}", e.name(), tail)
                        }
                    }
                    (Ok(()), None) => {
                        if known {
                            format!("ok stored {}", tail)
                        } else {
                            format!("ok ignored {}", tail)
                        }
                    }
                };
                if let Verdict::Ok = v {
                    if self.t.last_received_sequence_number() < last_before {
                        v = Verdict::fail("last_monotone", class, "high-water mark went down");
                    }
                }
                (line, v)
            }
            _ => ("bad-op".to_string(), Verdict::Ok),
        }
    }
}

/// generated client receive histories; `heavy` = many intermediate chunks (C10)
pub fn gen_cli(rng: &mut Rng, heavy: bool, out: &mut Vec<String>) {
    let mp = *rng.pick(&[0u64, 1, 2, 5, 5]);
    let chan = *rng.pick(&[0u64, 1, 1, 2]);
    out.push(format!("reset cli {} {}", mp, chan));
    let nreq = rng.range(1, 3) as u64;
    for _ in 0..nreq {
        out.push("req".to_string());
    }
    let mut last: u64 = 0;
    if rng.chance(1, 5) {
        last = u32::MAX as u64 - rng.below(6) - 1;
    }
    let mut history: Vec<Vec<String>> = Vec::new();
    for _ in 0..rng.range(1, 5) {
        if !history.is_empty() && rng.chance(1, 6) {
            out.extend(rng.pick(&history).clone());
            continue;
        }
        let req = if rng.chance(1, 10) { *rng.pick(&[999u64, 1000, 2000]) } else { 1001 + rng.below(nreq + 1) };
        let n = if heavy {
            match rng.below(3) {
                0 => (mp as i64 + rng.range(-1, 3)).max(1) as u64,
                1 => 1 + rng.below(12),
                _ => 30,
            }
        } else {
            1 + rng.weighted(&[5, 3, 2, 1]) as u64
        };
        let first = match rng.weighted(&[8, 2, 1, 1]) {
            0 => last + 1,
            1 => last + 1 + rng.below(4),
            2 => last,
            _ => (last as i64 + rng.range(-2, 2)).max(0) as u64,
        };
        let mut ls = Vec::new();
        for i in 0..n {
            let mut c = if chan == 0 { rng.below(2) } else { chan };
            let mut s = first + i;
            match rng.weighted(&[24, 1, 1, 1]) {
                1 => c = *rng.pick(&[0u64, 3]),
                2 => s = (s as i64 + rng.range(-2, 2)).max(0) as u64,
                3 => s = first,
                _ => {}
            }
            let s = s.min(u32::MAX as u64);
            let f = if i + 1 == n {
                if rng.chance(1, 12) { "C" } else { "F" }
            } else if rng.chance(1, 30) {
                "A"
            } else if rng.chance(1, 40) {
                "F"
            } else {
                "C"
            };
            ls.push(format!("cchunk {}:{}:{} {}", c, s, req, f));
        }
        if ls.len() > 1 && rng.chance(1, 5) {
            let i = rng.below(ls.len() as u64 - 1) as usize;
            ls.swap(i, i + 1); // arrival out of order
        }
        if rng.chance(1, 8) {
            let i = rng.below(ls.len() as u64) as usize;
            let d = ls[i].clone();
            ls.insert(i, d); // duplicate delivery
        }
        last = (first + n - 1).min(u32::MAX as u64);
        history.push(ls.clone());
        out.extend(ls);
        if rng.chance(1, 3) {
            out.push("req".to_string());
        }
    }
}
