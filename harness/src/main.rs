//! opcua-verif-harness: runs the real opcua crate (built from /repo's working tree with
//! `--cfg locka99_opcua_verif`) on operation streams shared with the Lean model driver.
//!
//!   harness gen <Cxx> <seed> <n> <quick|thorough>      > ops.txt
//!   harness run <Cxx> < ops.txt                        > "<impl result>\t<oracle verdict>" per op
mod common;
mod enc;
mod fixtures;
mod props;

use common::*;
use std::io::{BufRead, Write};
use std::panic::{catch_unwind, AssertUnwindSafe};

fn main() {
    let args: Vec<String> = std::env::args().collect();
    if args.len() < 3 {
        eprintln!("usage: harness gen <Cxx> <seed> <n> <tier> | harness run <Cxx>");
        std::process::exit(2);
    }
    let prop = match props::find(&args[2]) {
        Some(p) => p,
        None => {
            eprintln!("unknown property {}", args[2]);
            std::process::exit(2);
        }
    };
    match args[1].as_str() {
        "gen" => {
            let seed: u64 = args[3].parse().expect("seed");
            let n: usize = args[4].parse().expect("n");
            let tier = if args.get(5).map(|s| s.as_str()) == Some("thorough") {
                Tier::Thorough
            } else {
                Tier::Quick
            };
            let mut rng = Rng::new(seed);
            let mut out = Vec::new();
            prop.gen(&mut rng, n, tier, &mut out);
            let stdout = std::io::stdout();
            let mut w = std::io::BufWriter::new(stdout.lock());
            for l in out {
                writeln!(w, "{}", l).unwrap();
            }
        }
        "run" => {
            // silence the default panic message; panics are outcomes here
            std::panic::set_hook(Box::new(|_| {}));
            let stdin = std::io::stdin();
            let stdout = std::io::stdout();
            let mut w = std::io::BufWriter::new(stdout.lock());
            let mut runner: Option<Box<dyn Runner>> = None;
            let mut poisoned = false;
            for line in stdin.lock().lines() {
                let line = line.unwrap();
                let l = line.trim();
                if l.is_empty() || l.starts_with('#') {
                    continue;
                }
                let toks: Vec<&str> = l.split(' ').collect();
                if toks[0] == "reset" {
                    // dropping a runner whose state was left inconsistent by a panic may panic too
                    if let Some(r) = runner.take() {
                        let _ = catch_unwind(AssertUnwindSafe(move || drop(r)));
                    }
                    runner = Some(prop.runner());
                    poisoned = false;
                }
                if poisoned {
                    writeln!(w, "skip\tok").unwrap();
                    w.flush().unwrap();
                    continue;
                }
                // everything written so far must be visible if the real code aborts the process
                w.flush().unwrap();
                let r = runner.get_or_insert_with(|| prop.runner());
                let res = catch_unwind(AssertUnwindSafe(|| r.step(&toks)));
                match res {
                    Ok((out, v)) => {
                        writeln!(w, "{}\t{}", out.replace(['\n', '\t'], " "), v.render()).unwrap();
                        if out.starts_with("panic") {
                            poisoned = true;
                        }
                    }
                    Err(_) => {
                        let v = r.on_panic(&toks);
                        writeln!(w, "panic\t{}", v.render()).unwrap();
                        poisoned = true;
                    }
                }
            }
            w.flush().unwrap();
        }
        _ => {
            eprintln!("unknown mode");
            std::process::exit(2);
        }
    }
}
