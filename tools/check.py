#!/usr/bin/env python3
"""bin/check <Cxx> [--tier quick|thorough] [--replay PATH] [--n N]

Decides one property on /repo's current working tree (see DESIGN.md §4):

  P  proof obligations : `lake build` of the property's Lean modules, forbidden-token scan,
                         `#print axioms` of every listed theorem ⊆ {propext, Classical.choice, Quot.sound};
                         translators (if any) regenerate `Generated/*.lean` from /repo first.
  K  correspondence    : the compiled Lean model (`opcua_model`) and the real code (harness built
                         against /repo with --cfg locka99_opcua_verif) agree on every op of the run.
  O  oracle            : an implementation-only statement of the property, evaluated per op.

Exit 0 iff P ∧ K ∧ (no oracle failure outside known_findings.json).  Otherwise a replay file is
written, `VIOLATION property=<id> replay=<path>[ no-failing-input-found]` is printed and exit is 1.
"""
import fcntl, glob, hashlib, json, os, re, subprocess, sys, time

ROOT = os.path.dirname(os.path.dirname(os.path.abspath(__file__)))
# an agent worktree keeps its own copy of the repository next to its copy of /verif
_SIBLING = os.path.join(os.path.dirname(ROOT), "repo")
REPO = os.environ.get("VERIF_REPO", _SIBLING if os.path.isdir(os.path.join(_SIBLING, "lib")) and ROOT != "/verif" else "/repo")
LEAN = f"{ROOT}/lean"
HARNESS = f"{ROOT}/harness"
MODEL_BIN = f"{LEAN}/.lake/build/bin/opcua_model"
HARNESS_BIN = f"{HARNESS}/target/debug/harness"
ALLOWED_AXIOMS = {"propext", "Classical.choice", "Quot.sound"}
FORBIDDEN = re.compile(r"\b(sorry|admit|native_decide|bv_decide|implemented_by|unsafe)\b|^\s*axiom\s|maxHeartbeats\s+0")
TRIVIAL_RESULTS = ("bad-op", "skip")
ARMS = {}     # model arm tag -> number of ops of the main run that took it

sys.path.insert(0, f"{ROOT}/tools")
import gen_registry  # noqa: E402


def log(*a):
    print(*a, file=sys.stderr, flush=True)


class Lock:
    """serialises builds when several checks run at once"""
    def __init__(self, name):
        self.path = f"{ROOT}/.{name}.lock"
    def __enter__(self):
        self.f = open(self.path, "w")
        fcntl.flock(self.f, fcntl.LOCK_EX)
    def __exit__(self, *a):
        fcntl.flock(self.f, fcntl.LOCK_UN)
        self.f.close()


def sh(cmd, cwd=None, timeout=None, stdin=None, env=None):
    e = dict(os.environ)
    e["CARGO_NET_OFFLINE"] = "true"
    if env:
        e.update(env)
    p = subprocess.run(cmd, cwd=cwd, input=stdin, capture_output=True, text=True, timeout=timeout, env=e)
    return p.returncode, p.stdout, p.stderr


# ------------------------------------------------------------------------------------------------
# P: proof obligations
# ------------------------------------------------------------------------------------------------

def strip_lean_comments(src):
    out, i, depth = [], 0, 0
    while i < len(src):
        if src.startswith("/-", i):
            depth += 1; i += 2; continue
        if depth and src.startswith("-/", i):
            depth -= 1; i += 2; continue
        if depth:
            if src[i] == "\n": out.append("\n")
            i += 1; continue
        if src.startswith("--", i):
            j = src.find("\n", i)
            i = len(src) if j < 0 else j
            continue
        out.append(src[i]); i += 1
    return "".join(out)


def lean_deps(mods):
    """transitive project-local imports of the given modules"""
    seen, todo = set(), list(mods)
    while todo:
        m = todo.pop()
        if m in seen or not m.startswith("OpcuaVerif"):
            continue
        path = f"{LEAN}/{m.replace('.', '/')}.lean"
        if not os.path.exists(path):
            continue
        seen.add(m)
        for l in open(path):
            mm = re.match(r"\s*import\s+(\S+)", l)
            if mm:
                todo.append(mm.group(1))
    return sorted(seen)


def run_translators(spec, res):
    for t in spec.get("translators", []):
        try:
            rc, out, err = sh(["python3", f"{ROOT}/tools/translate/{t}.py", REPO, ROOT], timeout=300)
        except subprocess.TimeoutExpired:
            # e.g. the lock-order workload of C38 deadlocking on the changed code: a failed obligation, not a crash
            rc, out, err = 124, "", f"translator {t} did not finish within 300 s (hang / deadlock of the code it runs?)"
        if rc != 0:
            res["p_failures"].append({"kind": "translator", "name": t, "detail": (out + err)[-2000:]})
        else:
            res["translator_notes"].append({"name": t, "summary": out.strip()[-500:]})


def proof_obligations(spec, res):
    mods = spec["lean_modules"]
    theorems = spec["theorems"]
    res["obligations"] = len(theorems) + len(spec.get("translators", []))
    res["discharged"] = 0
    with Lock("lake"):
        t0 = time.time()
        rc, out, err = sh(["lake", "build"] + mods + ["opcua_model"], cwd=LEAN, timeout=3600)
        res["lake_build_s"] = round(time.time() - t0, 1)
        if rc != 0:
            errs = [l for l in (out + err).splitlines() if "error" in l][:20]
            res["p_failures"].append({"kind": "lake-build", "detail": "\n".join(errs)})
        # axiom audit
        audit = f"{LEAN}/OpcuaVerif/Audit/{spec['id']}.lean"
        text = "-- GENERATED by tools/check.py\n" + "".join(f"import {m}\n" for m in mods) + \
               "".join(f"#print axioms {t}\n" for t in theorems)
        gen_registry.write_if_changed(audit, text)
        rc2, out2, err2 = sh(["lake", "env", "lean", audit], cwd=LEAN, timeout=1800)
    axioms = {}
    for m in re.finditer(r"'([^']+)' (?:depends on axioms: \[([^\]]*)\]|does not depend on any axioms)", out2.replace("\n ", " ").replace("\n", " ")):
        axioms[m.group(1)] = [a.strip() for a in (m.group(2) or "").split(",") if a.strip()]
    res["axioms"] = axioms
    for t in theorems:
        if t not in axioms:
            res["p_failures"].append({"kind": "theorem-missing-or-unchecked", "theorem": t,
                                      "detail": (out2 + err2)[-800:]})
        elif not set(axioms[t]) <= ALLOWED_AXIOMS:
            res["p_failures"].append({"kind": "axioms", "theorem": t, "detail": str(axioms[t])})
        else:
            res["discharged"] += 1
    # thorough tier: second opinion from the independent re-checker of compiled .olean files
    if os.environ.get("VERIF_TIER_EFFECTIVE") == "thorough" and rc == 0:
        t0 = time.time()
        rc3, out3, err3 = sh(["lake", "env", "leanchecker"] + mods, cwd=LEAN, timeout=3600)
        res["leanchecker"] = {"rc": rc3, "wall_s": round(time.time() - t0, 1), "modules": mods}
        if rc3 != 0:
            res["p_failures"].append({"kind": "leanchecker", "detail": (out3 + err3)[-1500:]})
    # forbidden tokens in every project-local module the theorems depend on
    for m in lean_deps(mods):
        src = strip_lean_comments(open(f"{LEAN}/{m.replace('.', '/')}.lean").read())
        for k, line in enumerate(src.splitlines(), 1):
            if FORBIDDEN.search(line):
                res["p_failures"].append({"kind": "forbidden-token", "module": m, "line": k, "detail": line.strip()})
    if not any(f["kind"] == "translator" for f in res["p_failures"]):
        res["discharged"] += len(spec.get("translators", []))
    if res["p_failures"]:
        res["discharged"] = min(res["discharged"], res["obligations"] - 1)



# ------------------------------------------------------------------------------------------------
# T6: fingerprints of the hand-modelled functions (DESIGN §3.2).  A changed fingerprint is NOT a
# violation; it multiplies the number of generated cases and is recorded in the evidence.
# ------------------------------------------------------------------------------------------------

def _block(src, start):
    """text from `start` to the brace that closes the first `{` after it"""
    i = src.find("{", start)
    if i < 0:
        return None
    depth, j = 0, i
    while j < len(src):
        c = src[j]
        if c == "{": depth += 1
        elif c == "}":
            depth -= 1
            if depth == 0:
                return src[start:j + 1]
        j += 1
    return None


def fn_body(src, name):
    """text of `fn <name>` including its body (brace matching); `Type::name` restricts the search to
    the `impl … Type …` blocks of the file; None if absent"""
    if "::" in name:
        ty, fn = name.rsplit("::", 1)
        for m in re.finditer(r"\bimpl\b[^{;]*\b" + re.escape(ty) + r"\b[^{;]*\{", src):
            blk = _block(src, m.start())
            if blk:
                b = fn_body(blk, fn)
                if b:
                    return b
        return None
    m = re.search(r"\bfn\s+" + re.escape(name) + r"\b", src)
    if not m:
        return None
    return _block(src, m.start())


def normalise_rust(txt):
    txt = re.sub(r"//[^\n]*", "", txt)
    txt = re.sub(r"/\*.*?\*/", "", txt, flags=re.S)
    return re.sub(r"\s+", "", txt)


def fingerprints(spec):
    out = {}
    for ent in spec.get("modelled_functions", []):
        path = f"{REPO}/{ent['file']}"
        try:
            src = open(path).read()
        except OSError:
            out[f"{ent['file']}::{ent['fn']}"] = "file-missing"
            continue
        body = fn_body(src, ent["fn"])
        out[f"{ent['file']}::{ent['fn']}"] = hashlib.sha256(normalise_rust(body).encode()).hexdigest()[:16] if body else "fn-missing"
    return out

# ------------------------------------------------------------------------------------------------
# K/O: correspondence and oracle
# ------------------------------------------------------------------------------------------------

def build_harness(res):
    with Lock("cargo"):
        tmpl = open(f"{HARNESS}/Cargo.toml.in").read().replace("@REPO@", REPO)
        gen_registry.write_if_changed(f"{HARNESS}/Cargo.toml", tmpl)
        if not os.path.exists(f"{HARNESS}/Cargo.lock"):
            import shutil
            shutil.copy(f"{REPO}/Cargo.lock", f"{HARNESS}/Cargo.lock")
        t0 = time.time()
        rc, out, err = sh(["cargo", "build", "--offline", "--quiet"], cwd=HARNESS, timeout=3600)
        res["cargo_build_s"] = round(time.time() - t0, 1)
        if rc != 0:
            errs = [l for l in err.splitlines() if l.startswith("error")][:20]
            res["build_error"] = "\n".join(errs) or err[-2000:]
            return False
    return True


def split_cases(ops):
    cases, cur = [], []
    for l in ops:
        if l.split(" ")[0] == "reset" and cur:
            cases.append(cur); cur = []
        cur.append(l)
    if cur:
        cases.append(cur)
    return cases


def _run_child(cmd, data, env, stall_s):
    """runs cmd feeding `data`; returns (stdout text, returncode, stalled).  The child is killed only when it
    produces no new output for `stall_s` seconds (an op that hangs), never because the whole run is long."""
    import threading
    p = subprocess.Popen(cmd, stdin=subprocess.PIPE, stdout=subprocess.PIPE, stderr=subprocess.DEVNULL, env=env)
    chunks, last = [], [time.time()]

    def reader():
        while True:
            b = p.stdout.read1(1 << 16)
            if not b:
                break
            chunks.append(b); last[0] = time.time()

    def writer():
        try:
            p.stdin.write(data.encode()); p.stdin.close()
        except (BrokenPipeError, OSError):
            pass

    tr = threading.Thread(target=reader, daemon=True); tw = threading.Thread(target=writer, daemon=True)
    tr.start(); tw.start()
    stalled = False
    while p.poll() is None:
        time.sleep(0.2)
        if time.time() - last[0] > stall_s:
            stalled = True
            p.kill()
            break
    p.wait(); tr.join(timeout=5)
    return b"".join(chunks).decode(errors="replace"), p.returncode, stalled


def run_impl(pid, ops, timeout):
    """Runs the harness over all ops; survives aborts/hangs of the child by restarting at the next
    case.  `timeout` is the per-op stall limit (seconds without any new result line), not a limit on
    the whole run.  Returns list of (result, verdict)."""
    results = []
    i = 0
    env = {**os.environ, "RUST_MIN_STACK": os.environ.get("VERIF_STACK", str(8 * 1024 * 1024))}
    stall_s = min(timeout, int(os.environ.get("VERIF_STALL_S", "180")))
    while i < len(ops):
        chunk = ops[i:]
        out, rc, timed_out = _run_child([HARNESS_BIN, "run", pid], "\n".join(chunk) + "\n", env, stall_s)
        lines = out.splitlines()
        if lines and not out.endswith("\n"):
            lines = lines[:-1]
        for l in lines[:len(chunk)]:
            r, _, v = l.partition("\t")
            results.append((r, v or "ok"))
        done = len(lines)
        if done >= len(chunk):
            break
        # the child died or hung while executing chunk[done]
        what = "timeout" if timed_out else "abort"
        results.append((what, f"FAIL no_{what} - process {'produced no result for ' + str(stall_s) + ' s' if timed_out else 'died rc=' + str(rc)} on this op"))
        j = done + 1
        while j < len(chunk) and chunk[j].split(" ")[0] != "reset":
            results.append(("skip", "ok")); j += 1
        i += j
    return results


def run_model(pid, ops, timeout):
    p = subprocess.run([MODEL_BIN, pid], input="\n".join(ops) + "\n", capture_output=True, text=True, timeout=timeout)
    lines = p.stdout.splitlines()
    for l in p.stderr.splitlines():          # arm tags emitted by the model driver (Main.lean)
        if l.startswith("ARM "):
            for a in l[4:].split(","):
                if a:
                    ARMS[a] = ARMS.get(a, 0) + 1
    if p.returncode != 0 or len(lines) != len(ops):
        lines += [f"model-died rc={p.returncode}"] * (len(ops) - len(lines))
    return lines


def evaluate(pid, ops, timeout=900):
    impl = run_impl(pid, ops, timeout)          # `timeout` = per-op stall limit on the implementation side
    model = run_model(pid, ops, 7200)           # the model is total; this only guards against a runaway driver
    return impl, model


def load_corpus(pid):
    ops = []
    for p in sorted(glob.glob(f"{ROOT}/corpus/{pid}/*.ops")):
        for l in open(p):
            l = l.strip()
            if l and not l.startswith("#"):
                ops.append(l)
    return ops


def gen_ops(pid, seed, n, tier):
    rc, out, err = sh([HARNESS_BIN, "gen", pid, str(seed), str(n), tier], timeout=1800)
    if rc != 0:
        raise RuntimeError("generator failed: " + err[-500:])
    return [l for l in out.splitlines() if l.strip()]


def parse_fail(v):
    # "FAIL <sub> <class> <detail…>"
    t = v.split(" ", 3)
    return {"sub": t[1] if len(t) > 1 else "?", "class": t[2] if len(t) > 2 else "-", "detail": t[3] if len(t) > 3 else ""}


def finding_matches(f, fail, op):
    if f.get("sub_oracle") and f["sub_oracle"] != fail["sub"]:
        return False
    if f.get("class") and not re.fullmatch(f["class"], fail["class"]):
        return False
    if f.get("op_regex") and not re.search(f["op_regex"], op):
        return False
    return True


def analyse(pid, ops, impl, model, findings):
    """returns (oracle_failures, mismatches, known_hits) with indices into ops"""
    oracle, mism, known = [], [], {}
    for k, (op, (r, v), m) in enumerate(zip(ops, impl, model)):
        fail = parse_fail(v) if v.startswith("FAIL") else None
        matched = None
        if fail:
            for f in findings:
                if finding_matches(f, fail, op):
                    matched = f; break
            if matched:
                known.setdefault(matched["id"], []).append(k)
            else:
                oracle.append((k, fail))
        if r != m:
            # a disagreement on an op whose oracle failure is a listed finding belongs to that finding
            if not matched:
                mism.append(k)
    return oracle, mism, known


def case_of(ops, k):
    a = k
    while a > 0 and ops[a].split(" ")[0] != "reset":
        a -= 1
    b = k + 1
    while b < len(ops) and ops[b].split(" ")[0] != "reset":
        b += 1
    return a, b


def shrink(pid, case, kind, sub, findings):
    """Removes op lines from one failing case while it still fails the same way.  Candidates of a
    round are evaluated in one batch run."""
    def fails(cases):
        flat = [l for c in cases for l in c]
        impl, model = evaluate(pid, flat, timeout=300)
        out, pos = [], 0
        for c in cases:
            ok = False
            for k in range(pos, pos + len(c)):
                r, v = impl[k]
                if kind == "oracle" and v.startswith("FAIL") and parse_fail(v)["sub"] == sub \
                        and not any(finding_matches(f, parse_fail(v), flat[k]) for f in findings):
                    ok = True
                if kind == "mismatch" and r != model[k]:
                    ok = True
            out.append(ok); pos += len(c)
        return out
    cur = list(case)
    t_end = time.time() + 120
    chunk = max(1, (len(cur) - 1) // 2)
    while chunk >= 1 and time.time() < t_end:
        cands = []
        i = 1
        while i < len(cur):
            c = cur[:i] + cur[i + chunk:]
            if len(c) >= 1:
                cands.append(c)
            i += chunk
        if not cands:
            break
        res = fails(cands)
        hit = next((c for c, ok in zip(cands, res) if ok), None)
        if hit is not None and len(hit) < len(cur):
            cur = hit
            chunk = min(chunk, max(1, (len(cur) - 1) // 2))
        else:
            if chunk == 1:
                break
            chunk //= 2
    return cur


def write_replay(pid, seed, tier, reason, case, extra, idx_note=""):
    os.makedirs(f"{ROOT}/replay", exist_ok=True)
    n = 1
    while os.path.exists(f"{ROOT}/replay/{pid}-{n}.ops"):
        n += 1
    path = f"{ROOT}/replay/{pid}-{n}.ops"
    with open(path, "w") as f:
        f.write(f"# property={pid} seed={seed} tier={tier} reason={reason} {extra}\n")
        impl, model = ([], [])
        if case and os.path.exists(HARNESS_BIN) and os.path.exists(MODEL_BIN):
            try:
                impl, model = evaluate(pid, case, timeout=300)
            except Exception as e:  # noqa
                pass
        for k, l in enumerate(case):
            f.write(l + "\n")
            if k < len(impl):
                f.write(f"#   impl  : {impl[k][0]}\n#   model : {model[k] if k < len(model) else '?'}\n#   oracle: {impl[k][1]}\n")
        if idx_note:
            f.write(f"# {idx_note}\n")
    return path


def histogram(items):
    h = {}
    for i in items:
        h[i] = h.get(i, 0) + 1
    return dict(sorted(h.items(), key=lambda kv: -kv[1]))


def result_class(r):
    t = r.split(" ")
    return t[0] if t[0] != "ok" or len(t) < 2 else "ok"


# ------------------------------------------------------------------------------------------------

def main():
    args = sys.argv[1:]
    if not args:
        print(__doc__); return 2
    pid = args[0]
    tier = os.environ.get("VERIF_TIER", "quick")
    replay, n_override = None, None
    i = 1
    while i < len(args):
        if args[i] == "--tier": tier = args[i + 1]; i += 2
        elif args[i] == "--replay": replay = args[i + 1]; i += 2
        elif args[i] == "--n": n_override = int(args[i + 1]); i += 2
        else: i += 1
    if tier not in ("quick", "thorough"):
        tier = "quick"
    seed = int(os.environ.get("VERIF_SEED", "1"))
    os.environ["VERIF_TIER_EFFECTIVE"] = tier
    t_start = time.time()
    spec = json.load(open(f"{ROOT}/props/{pid}.json"))
    findings_all = json.load(open(f"{ROOT}/known_findings.json"))["findings"]
    for fp in sorted(glob.glob(f"{ROOT}/findings/*.json")):   # per-property files, same format
        findings_all += [f for f in json.load(open(fp))["findings"] if f["id"] not in {g["id"] for g in findings_all}]
    findings = [f for f in findings_all if f["property"] == pid and f.get("status") == "known"]

    gen_registry.lean_registry(); gen_registry.rust_registry()
    res = {"p_failures": [], "translator_notes": []}
    run_translators(spec, res)
    proof_obligations(spec, res)
    built = build_harness(res)

    violations = []           # (replay path, suffix)
    known_lines = []
    cov = {}
    n = n_override or spec.get(f"{tier}_n", 1000)
    fps = fingerprints(spec)
    fp_changed = sorted(k for k, v in fps.items() if spec.get("fingerprints", {}).get(k) not in (None, v))
    if fp_changed and not n_override:
        n *= 3      # the modelled source changed since the model was written: look harder
    cov["modelled_source_fingerprints"] = fps
    cov["modelled_source_changed"] = fp_changed

    if replay:
        ops = [l.strip() for l in open(replay) if l.strip() and not l.startswith("#")]
        impl, model = evaluate(pid, ops)
        bad = False
        for op, (r, v), m in zip(ops, impl, model):
            print(f"{op}\n   impl  : {r}\n   model : {m}\n   oracle: {v}")
            if v.startswith("FAIL") or r != m:
                bad = True
        print("REPLAY:", "property violated / correspondence broken on this input" if bad else "passes")
        return 1 if bad else 0

    if not built:
        path = write_replay(pid, seed, tier, "correspondence", [], "correspondence=harness-build",
                            "the harness no longer builds against /repo: " + res.get("build_error", "")[:1500].replace("\n", "\n# "))
        violations.append((path, " no-failing-input-found"))
        ops, impl, model, oracle, mism, known = [], [], [], [], [], {}
    else:
        corpus = load_corpus(pid)
        try:
            generated = gen_ops(pid, seed, n, tier)
        except Exception as e:  # the generator itself runs real code (to build valid inputs): a crash there is a broken tie
            generated = []
            path = write_replay(pid, seed, tier, "correspondence", [], "correspondence=harness-generator",
                                "the harness generator failed on /repo's current tree: " + str(e)[:1500].replace("\n", "\n# "))
            violations.append((path, " no-failing-input-found"))
        ops = corpus + generated
        ARMS.clear()
        impl, model = evaluate(pid, ops, timeout=spec.get("run_timeout_s", 1800))
        arms_main = dict(ARMS)
        oracle, mism, known = analyse(pid, ops, impl, model, findings)

        for f in findings:
            if f["id"] in known:
                known_lines.append(f"KNOWN-FINDING: property={pid} {f['what']} [{f['id']}; {len(known[f['id']])} op(s) in this run]")

        if oracle:
            # group by sub-oracle, report the first of each (shrunk)
            seen = set()
            for k, fail in oracle:
                if fail["sub"] in seen or len(seen) >= 3:
                    continue
                seen.add(fail["sub"])
                a, b = case_of(ops, k)
                case = shrink(pid, ops[a:k + 1], "oracle", fail["sub"], findings)
                path = write_replay(pid, seed, tier, "oracle", case, f"sub_oracle={fail['sub']} class={fail['class']}")
                violations.append((path, ""))
        search_note = None
        if (mism or res["p_failures"]) and not oracle:
            # K or P broke without an implementation-side failure in the main run: directed search —
            # more cases from fresh seeds, looking for an op on which the implementation itself
            # violates the property (oracle), DESIGN §4 steps 4/5.
            found = None
            budget_n = spec.get("search_n", n * 3)
            t_search_end = time.time() + spec.get("search_s", 240)
            for s2 in range(1, 9):
                if time.time() > t_search_end:
                    break
                try:
                    ops2 = gen_ops(pid, seed * 1000 + s2, budget_n, "thorough")
                except Exception:
                    break
                impl2, model2 = evaluate(pid, ops2, timeout=900)
                o2, m2, _ = analyse(pid, ops2, impl2, model2, findings)
                if o2:
                    k, fail = o2[0]
                    a, b = case_of(ops2, k)
                    found = (shrink(pid, ops2[a:k + 1], "oracle", fail["sub"], findings), fail)
                    break
            if found:
                path = write_replay(pid, seed, tier, "oracle", found[0],
                                    f"sub_oracle={found[1]['sub']} class={found[1]['class']} (found by the directed search after a broken {'correspondence' if mism else 'proof obligation'})")
                violations.append((path, ""))
            else:
                if mism:
                    k = mism[0]
                    a, b = case_of(ops, k)
                    case = shrink(pid, ops[a:k + 1], "mismatch", None, findings)
                    path = write_replay(pid, seed, tier, "correspondence", case,
                                        f"correspondence={pid}:{ops[k].split(' ')[0]}",
                                        f"model and implementation disagree ({len(mism)} op(s) in the run); no input on which the implementation violates the property was found")
                else:
                    pf = res["p_failures"][0]
                    path = write_replay(pid, seed, tier, "proof", [],
                                        f"theorem={pf.get('theorem', pf.get('name', pf['kind']))}",
                                        "proof obligation no longer checks: " + json.dumps(pf)[:1500])
                violations.append((path, " no-failing-input-found"))
                search_note = "directed search found no failing input"
        cov["search_note"] = search_note

    # ---------------- evidence ----------------
    pairs = set()
    for op, (r, v) in zip(ops, impl):
        if r.split(" ")[0] not in TRIVIAL_RESULTS:
            pairs.add((op, r))
    cases = split_cases(ops)
    sample_idx = [0, len(cases) // 2, len(cases) - 1] if cases else []
    samples = []
    pos = {id(c): None for c in cases}
    flat_pos, p0 = [], 0
    for c in cases:
        flat_pos.append(p0); p0 += len(c)
    for ci in sorted(set(sample_idx)):
        c = cases[ci]
        st = flat_pos[ci]
        samples.append([{"op": c[j], "impl": impl[st + j][0], "model": model[st + j], "oracle": impl[st + j][1][:120]}
                        for j in range(min(len(c), 6))])
    for t in spec["theorems"][:3]:
        samples.append({"obligation": t, "axioms": res.get("axioms", {}).get(t)})
    cov.update({
        "obligations": res.get("obligations", 0),
        "discharged": res.get("discharged", 0),
        "checker_cmd": f"cd lean && lake build {' '.join(spec['lean_modules'])} && lake env lean OpcuaVerif/Audit/{pid}.lean   # Lean 4 kernel; #print axioms per theorem",
        "trusted_base": spec.get("trusted_base", []) + [
            "Lean 4.33.0 kernel; axioms per theorem listed under coverage.axioms (allowed: propext, Classical.choice, Quot.sound)",
            "Lean compiler/runtime for the model driver opcua_model",
            "tools/check.py + harness generator and oracle (harness/src/props/%s.rs)" % pid.lower()],
        "theorems": spec["theorems"],
        "axioms": res.get("axioms", {}),
        "proof_failures": res["p_failures"],
        "translators": res["translator_notes"],
        "evaluations": len(ops),
        "cases": len(cases),
        "distinct_nontrivial": len(pairs),
        "rule": spec.get("rule", "ops are generated by the structured generator in the harness from VERIF_SEED (corpus first); an evaluation is one op executed on both the real code and the Lean model; distinct_nontrivial counts distinct (op line, implementation result) pairs whose result is not bad-op/skip"),
        "samples": samples,
        "disagreements_checked": len(ops),
        "disagreements": len(mism),
        "oracle_failures": len(oracle),
        "known_findings_reproduced": {k: len(v) for k, v in known.items()},
        "model_arms_hit": dict(sorted(locals().get("arms_main", {}).items())),
        "model_arms_declared": len(spec.get("arms", [])),
        "model_arms_never_reached": sorted(set(spec.get("arms", [])) - set(locals().get("arms_main", {}))),
        "op_distribution": histogram(o.split(" ")[0] for o in ops),
        "result_distribution": histogram(result_class(r) for r, _ in impl),
        "case_length": {"min": min((len(c) for c in cases), default=0), "max": max((len(c) for c in cases), default=0)},
        "lake_build_s": res.get("lake_build_s"), "cargo_build_s": res.get("cargo_build_s"),
        "leanchecker": res.get("leanchecker"),
        "exhaustive": False,
    })
    ev = {
        "property_id": pid, "tier": tier, "seed": seed, "level": "proof",
        "coverage": cov,
        "assumptions": spec.get("assumptions", []),
        "wall_s": round(time.time() - t_start, 2),
        "violations": len(violations),
    }
    os.makedirs(f"{ROOT}/evidence", exist_ok=True)
    with open(f"{ROOT}/evidence/{pid}.json", "w") as f:
        json.dump(ev, f, indent=1)
        f.write("\n")

    for l in known_lines:
        print(l)
    if cov["model_arms_never_reached"]:
        print(f"COVERAGE: property={pid} model arms never reached by this run: {','.join(cov['model_arms_never_reached'])}")
    print(f"{pid}: obligations {cov['obligations']}/{cov['discharged']} discharged; {len(ops)} ops in {len(cases)} cases; "
          f"{len(mism)} disagreements; {len(oracle)} oracle failures; {sum(len(v) for v in known.values())} known-finding hits; {ev['wall_s']} s")
    for path, suffix in violations:
        print(f"VIOLATION property={pid} replay={path}{suffix}")
    return 1 if violations else 0


if __name__ == "__main__":
    sys.exit(main())
