#!/usr/bin/env python3
"""tools/mutate_model.py <Cxx> [--max N] [--n CASES] [--files Model/A.lean,Model/B.lean]

Generator-quality analysis (developer tool, not a registered check): mutates the Lean MODEL of a property one
small edit at a time (comparison operators, boolean connectives, off-by-one constants, true/false), rebuilds
only the model driver (`lake build opcua_model`, proofs are not needed) in a scratch copy of the Lean project,
re-runs it on the ops of a quick run and compares with the implementation's results recorded once.

  killed    : some op distinguishes the mutant from the real code  -> the correspondence run would notice an
              implementation change of that shape at that place
  survived  : no generated op distinguishes it -> the generator never drives that guard/constant to the point
              where it matters (or the mutant is equivalent): a weakness to look at
  stillborn : the mutant does not compile (ignored)

Writes mutation/<Cxx>.json and prints the survivors with their source line."""
import json, os, re, shutil, subprocess, sys, time

ROOT = os.path.dirname(os.path.dirname(os.path.abspath(__file__)))
sys.path.insert(0, f"{ROOT}/tools")
import check  # noqa: E402

OPS = [
    (r" < ", " ≤ "), (r" ≤ ", " < "), (r" > ", " ≥ "), (r" ≥ ", " > "),
    (r" <= ", " < "), (r" >= ", " > "),
    (r" == ", " != "), (r" != ", " == "), (r" && ", " || "), (r" \|\| ", " && "),
    (r" \+ 1\b", " + 2"), (r" - 1\b", " - 0"), (r"\btrue\b", "false"), (r"\bfalse\b", "true"),
    (r" ∧ ", " ∨ "), (r" ∨ ", " ∧ "),
]


def code_lines(src):
    """indices of lines that belong to executable definitions (def/abbrev/instance bodies), not theorems/comments"""
    stripped = check.strip_lean_comments(src).split("\n")
    keep, in_def = [], False
    for i, l in enumerate(stripped):
        s = l.lstrip()
        if re.match(r"(private\s+|protected\s+)?(def|abbrev|instance)\b", s):
            in_def = True
        elif re.match(r"(theorem|lemma|example|structure|inductive|namespace|end|open|import|section|variable|deriving|@\[|set_option|mutual)\b", s):
            in_def = False
        if in_def and s:
            keep.append(i)
    return keep, stripped


def main():
    args = sys.argv[1:]
    pid = args[0]
    mx, n, files = 60, None, None
    i = 1
    while i < len(args):
        if args[i] == "--max": mx = int(args[i + 1]); i += 2
        elif args[i] == "--n": n = int(args[i + 1]); i += 2
        elif args[i] == "--files": files = args[i + 1].split(","); i += 2
        else: i += 1
    spec = json.load(open(f"{ROOT}/props/{pid}.json"))
    n = n or min(spec.get("quick_n", 1000), 1500)
    if not files:
        deps = check.lean_deps([f"OpcuaVerif.Drv.{pid}"])
        files = [d.replace("OpcuaVerif.", "").replace(".", "/") + ".lean" for d in deps
                 if ".Model." in d and "Generated" not in d]
    print("model files:", files)
    # 1. ops + implementation results, once
    ops = check.load_corpus(pid) + check.gen_ops(pid, 1, n, "quick")
    impl = [r for r, _ in check.run_impl(pid, ops, 900)]
    base = check.run_model(pid, ops, 900)
    bad = sum(1 for a, b in zip(impl, base) if a != b)
    if bad:
        print(f"baseline model disagrees with the implementation on {bad} ops — fix that first"); return 2
    # 2. scratch copy of the Lean project
    scratch = f"{ROOT}/mutation/.scratch-{pid}"
    shutil.rmtree(scratch, ignore_errors=True)
    os.makedirs(f"{ROOT}/mutation", exist_ok=True)
    subprocess.run(["cp", "-a", f"{ROOT}/lean", scratch], check=True)
    exe = f"{scratch}/.lake/build/bin/opcua_model"
    # 3. mutants
    mutants = []
    for f in files:
        src = open(f"{scratch}/OpcuaVerif/{f}").read()
        keep, stripped = code_lines(src)
        lines = src.split("\n")
        for li in keep:
            for pat, rep in OPS:
                for m in re.finditer(pat, stripped[li]):
                    # apply at the same column in the original line (comments were only blanked at line ends / blocks)
                    if lines[li][m.start():m.end()] != m.group(0):
                        continue
                    mutants.append((f, li, m.start(), m.end(), rep, m.group(0)))
    # deterministic thinning
    step = max(1, len(mutants) // mx)
    chosen = mutants[::step][:mx]
    print(f"{len(mutants)} candidate mutants, running {len(chosen)}")
    results = []
    t0 = time.time()
    for k, (f, li, a, b, rep, orig) in enumerate(chosen):
        path = f"{scratch}/OpcuaVerif/{f}"
        src = open(path).read()
        lines = src.split("\n")
        mutated = lines[li][:a] + rep + lines[li][b:]
        new = lines[:li] + [mutated] + lines[li + 1:]
        open(path, "w").write("\n".join(new))
        rc = subprocess.run(["lake", "build", "opcua_model"], cwd=scratch, capture_output=True, text=True, timeout=900).returncode
        status = "stillborn"
        if rc == 0:
            try:
                p = subprocess.run([exe, pid], input="\n".join(ops) + "\n", capture_output=True, text=True, timeout=300)
                out = p.stdout.splitlines()
                diff = sum(1 for x, y in zip(impl, out) if x != y) + abs(len(impl) - len(out))
                status = "killed" if diff else "survived"
            except subprocess.TimeoutExpired:
                status = "killed"          # a mutant that no longer terminates in time is distinguished from the code
        open(path, "w").write(src)
        results.append({"file": f, "line": li + 1, "from": orig.strip(), "to": rep.strip(), "status": status,
                        "source": lines[li].strip()[:160]})
        print(f"[{k + 1}/{len(chosen)}] {status:9s} {f}:{li + 1}  `{orig.strip()}` -> `{rep.strip()}`   {lines[li].strip()[:100]}", flush=True)
    shutil.rmtree(scratch, ignore_errors=True)
    summ = {s: sum(1 for r in results if r["status"] == s) for s in ("killed", "survived", "stillborn")}
    json.dump({"property": pid, "ops": len(ops), "summary": summ, "wall_s": round(time.time() - t0, 1), "mutants": results},
              open(f"{ROOT}/mutation/{pid}.json", "w"), indent=1)
    print("summary:", summ)
    for r in results:
        if r["status"] == "survived":
            print(f"SURVIVED {r['file']}:{r['line']} `{r['from']}` -> `{r['to']}` : {r['source']}")
    return 0


if __name__ == "__main__":
    sys.exit(main())
