#!/usr/bin/env python3
"""tools/mutate_enc.py <C01|C02|C03> [--max N] [--n CASES] [--files Model/Enc.lean,...] [--seed K]
                          [--lines 120-130,184 --merge]   (re-run exactly the mutants of those source lines of the
                          first file and merge their new status into the existing mutation/<Cxx>.json)

Fast variant of tools/mutate_model.py for the codec properties (same mutation operators, same result file
format `mutation/<Cxx>.json`).  mutate_model.py rebuilds `opcua_model` of the whole project for every mutant
(4–5 min per mutant here: Model/Enc.lean is below ~15 modules incl. the 900-line generated schemas); this tool
builds a minimal Lake project (Common, the three codec model files, the codec driver `Drv/EncDrv.lean` and a
tiny Main) in `mutation/.scratch-fast-<Cxx>-*/` so that a mutant costs about a minute.  Mutants of `Model/Enc.lean` and
`Model/EncTcp.lean` are run against a stub of `Generated/Schemas.lean` on the ops that do not need the schemas
(everything except sdec / srt / msg); mutants of `Model/EncSchema.lean` use the real schemas and all ops.

  killed    : some generated op distinguishes the mutant from the real code
  survived  : no generated op does (generator gap or equivalent mutant — explained in design/Cxx.md)
  stillborn : the mutant does not compile / does not terminate"""
import json, os, re, shutil, subprocess, sys, time

ROOT = os.path.dirname(os.path.dirname(os.path.abspath(__file__)))
sys.path.insert(0, f"{ROOT}/tools")
import check  # noqa: E402
from mutate_model import OPS, code_lines  # noqa: E402

MAIN = '''import OpcuaVerif.Drv.EncDrv
open OpcuaVerif

partial def loop (h : IO.FS.Stream) (out : IO.FS.Stream) : IO Unit := do
  let line ← h.getLine
  if line.isEmpty then return ()
  let l := line.trimAscii.toString
  if l.isEmpty || l.startsWith "#" then loop h out
  else
    out.putStrLn (OpcuaVerif.Enc.encStep (l.splitOn " "))
    loop h out

def main : IO UInt32 := do
  loop (← IO.getStdin) (← IO.getStdout)
  return 0
'''
LAKEFILE = '''name = "OpcuaVerif"
version = "0.1.0"
defaultTargets = ["mini"]

[[lean_lib]]
name = "OpcuaVerif"

[[lean_exe]]
name = "mini"
root = "Main"
'''
STUB = '''import OpcuaVerif.Model.EncSchema
namespace OpcuaVerif.Enc.Gen
open OpcuaVerif.Enc
def schemas : List (String × Ty) := []
def dispatchTable : List (Nat × Ty) := []
def objectIds : List Nat := []
end OpcuaVerif.Enc.Gen
'''
FILES = ["Common.lean", "Model/Enc.lean", "Model/EncSchema.lean", "Model/EncTcp.lean", "Generated/Schemas.lean",
         "Drv/EncDrv.lean"]


def setup(scratch, stub):
    shutil.rmtree(scratch, ignore_errors=True)
    for f in FILES:
        os.makedirs(os.path.dirname(f"{scratch}/OpcuaVerif/{f}"), exist_ok=True)
        shutil.copy(f"{ROOT}/lean/OpcuaVerif/{f}", f"{scratch}/OpcuaVerif/{f}")
    if stub:
        open(f"{scratch}/OpcuaVerif/Generated/Schemas.lean", "w").write(STUB)
    open(f"{scratch}/Main.lean", "w").write(MAIN)
    open(f"{scratch}/lakefile.toml", "w").write(LAKEFILE)
    for f in ("lean-toolchain", "lake-manifest.json"):
        shutil.copy(f"{ROOT}/lean/{f}", f"{scratch}/{f}")


def build(scratch):
    return subprocess.run(["lake", "build", "mini"], cwd=scratch, capture_output=True, text=True, timeout=1200).returncode


def run(scratch, ops):
    try:
        p = subprocess.run([f"{scratch}/.lake/build/bin/mini"], input="\n".join(ops) + "\n", capture_output=True,
                           text=True, timeout=300)
    except subprocess.TimeoutExpired:
        return None
    return p.stdout.splitlines()


def main():
    args = sys.argv[1:]
    pid = args[0]
    mx, n, files, seed, only, merge = 40, None, ["Model/Enc.lean", "Model/EncTcp.lean", "Model/EncSchema.lean"], 0, None, False
    i = 1
    while i < len(args):
        if args[i] == "--max": mx = int(args[i + 1]); i += 2
        elif args[i] == "--n": n = int(args[i + 1]); i += 2
        elif args[i] == "--files": files = args[i + 1].split(","); i += 2
        elif args[i] == "--seed": seed = int(args[i + 1]); i += 2
        elif args[i] == "--merge": merge = True; i += 1
        elif args[i] == "--lines":
            only = set()
            for part in args[i + 1].split(","):
                a, _, b = part.partition("-")
                only.update(range(int(a), int(b or a) + 1))
            i += 2
        else: i += 1
    spec = json.load(open(f"{ROOT}/props/{pid}.json"))
    n = n or spec.get("quick_n", 1000)
    ops = check.load_corpus(pid) + check.gen_ops(pid, 1, n, "quick")
    impl = [r for r, _ in check.run_impl(pid, ops, 900)]
    # candidate mutants
    mutants = []
    for f in files:
        src = open(f"{ROOT}/lean/OpcuaVerif/{f}").read()
        keep, stripped = code_lines(src)
        lines = src.split("\n")
        for li in keep:
            for pat, rep in OPS:
                for m in re.finditer(pat, stripped[li]):
                    if lines[li][m.start():m.end()] != m.group(0):
                        continue
                    mutants.append((f, li, m.start(), m.end(), rep, m.group(0)))
    if only is not None:
        chosen = [m for m in mutants if m[0] == files[0] and m[1] + 1 in only]
    else:
        step = max(1, len(mutants) // mx)
        chosen = mutants[seed % step::step][:mx]
    print(f"{len(mutants)} candidate mutants, running {len(chosen)}", flush=True)
    results, t0 = [], time.time()
    for stub in (True, False):
        group = [c for c in chosen if (c[0] != "Model/EncSchema.lean") == stub]
        if not group:
            continue
        scratch = f"{ROOT}/mutation/.scratch-fast-{pid}-{'core' if stub else 'schema'}"
        setup(scratch, stub)
        sel = [k for k, o in enumerate(ops) if not stub or o.split(" ")[0] not in ("sdec", "srt", "msg")]
        my_ops = [ops[k] for k in sel]
        my_impl = [impl[k] for k in sel]
        if build(scratch) != 0:
            print("baseline mini project does not build"); return 2
        base = run(scratch, my_ops)
        bad = [k for k, (a, b) in enumerate(zip(my_impl, base)) if a != b]
        if bad or len(base) != len(my_ops):
            print(f"baseline mini model disagrees with the implementation on {len(bad)} ops, e.g. {my_ops[bad[0]][:120] if bad else '?'}")
            return 2
        for (f, li, a, b, rep, orig) in group:
            path = f"{scratch}/OpcuaVerif/{f}"
            src = open(path).read()
            lines = src.split("\n")
            open(path, "w").write("\n".join(lines[:li] + [lines[li][:a] + rep + lines[li][b:]] + lines[li + 1:]))
            status = "stillborn"
            if build(scratch) == 0:
                out = run(scratch, my_ops)
                if out is not None:
                    diff = sum(1 for x, y in zip(my_impl, out) if x != y) + abs(len(my_impl) - len(out))
                    status = "killed" if diff else "survived"
            open(path, "w").write(src)
            results.append({"file": f, "line": li + 1, "from": orig.strip(), "to": rep.strip(), "status": status,
                            "source": lines[li].strip()[:160]})
            print(f"[{len(results)}/{len(chosen)}] {status:9s} {f}:{li + 1}  `{orig.strip()}` -> `{rep.strip()}`   {lines[li].strip()[:100]}", flush=True)
        shutil.rmtree(scratch, ignore_errors=True)
    if merge and os.path.exists(f"{ROOT}/mutation/{pid}.json"):
        prev = json.load(open(f"{ROOT}/mutation/{pid}.json"))["mutants"]
        key = lambda r: (r["file"], r["line"], r["from"], r["to"], r["source"])
        newk = {key(r): r for r in results}
        for r in newk.values():
            r["rerun_after_generator_change"] = True
        results = [newk.pop(key(r), r) for r in prev] + list(newk.values())
    summ = {s: sum(1 for r in results if r["status"] == s) for s in ("killed", "survived", "stillborn")}
    os.makedirs(f"{ROOT}/mutation", exist_ok=True)
    json.dump({"property": pid, "tool": "tools/mutate_enc.py (fast variant of mutate_model.py, same operators)",
               "ops": len(ops), "candidates": len(mutants), "summary": summ, "wall_s": round(time.time() - t0, 1),
               "mutants": results}, open(f"{ROOT}/mutation/{pid}.json", "w"), indent=1)
    print("summary:", summ)
    for r in results:
        if r["status"] == "survived":
            print(f"SURVIVED {r['file']}:{r['line']} `{r['from']}` -> `{r['to']}` : {r['source']}")
    return 0


if __name__ == "__main__":
    sys.exit(main())
