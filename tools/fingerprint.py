#!/usr/bin/env python3
"""tools/fingerprint.py Cxx  — (developer tool) stores the current fingerprints of the functions listed under
"modelled_functions" in props/Cxx.json into its "fingerprints" field (run after the model was validated)."""
import json, sys, os
sys.argv = [sys.argv[0]] + sys.argv[1:]
ROOT = os.path.dirname(os.path.dirname(os.path.abspath(__file__)))
sys.path.insert(0, f"{ROOT}/tools")
import check
for pid in sys.argv[1:]:
    p = f"{ROOT}/props/{pid}.json"
    spec = json.load(open(p))
    spec["fingerprints"] = check.fingerprints(spec)
    json.dump(spec, open(p, "w"), indent=1)
    open(p, "a").write("\n")
    print(pid, spec["fingerprints"])
