#!/bin/bash
# eval.sh <name> <prop> <testfile> <demofilter> : confirm the seed in its scratch worktree (background) and run the check
# against it in the evaluation worktree pair /work/_eval/{verif,repo} (same commits as /verif and /repo main; /repo itself untouched)
N=$1; P=$2; TF=$3; F=$4
(/work/_seedtools/confirm.sh /tmp/seed/$N $TF $F > /tmp/seed/$N.confirm.txt 2>&1 &)
cd /work/_eval/repo && git checkout -q -- . && git checkout -q --detach main || exit 1
cd /work/_eval/verif && git checkout -q -- . && git checkout -q --detach main || exit 1
git -C /work/_eval/repo apply /tmp/seed/$N/seed_out/patch.diff || { echo "patch does not apply to /repo main"; exit 2; }
/work/_eval/verif/bin/check $P > /tmp/seed/$N.check.txt 2>&1
git -C /work/_eval/repo checkout -q -- .
grep -E "^(C[0-9]+:|VIOLATION)" /tmp/seed/$N.check.txt | cut -c1-250
for r in $(grep -o "replay=[^ ]*" /tmp/seed/$N.check.txt | cut -d= -f2 | head -2); do echo "--- $r"; grep -v "^#  " $r | head -14 | cut -c1-200; done
