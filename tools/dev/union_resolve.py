#!/usr/bin/env python3
# resolves git conflict markers in the given files by keeping BOTH sides (ours first) — for add-only hook conflicts
import re,sys
for p in sys.argv[1:]:
    s=open(p).read()
    s=re.sub(r"<<<<<<< [^\n]*\n(.*?)=======\n(.*?)>>>>>>> [^\n]*\n", lambda m: m.group(1)+m.group(2), s, flags=re.S)
    open(p,'w').write(s)
