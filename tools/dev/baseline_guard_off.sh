#!/bin/sh
# runs the pinned baseline (guard OFF) on /repo's current HEAD in a scratch worktree, compares with BASELINE.json stable_pass
set -x
D=/work/_baseline/wt
rm -rf $D; git -C /repo worktree prune; git -C /repo worktree add -q --detach $D HEAD || exit 3
cd $D
export CARGO_NET_OFFLINE=true CARGO_TARGET_DIR=/work/_baseline/target
cargo nextest run --workspace --no-fail-fast --tool-config-file pb:/w/lib/nextest.toml --profile pb --test-threads 8 --offline > /work/_baseline/log.txt 2>&1
echo "rc=$?" >> /work/_baseline/log.txt
find $CARGO_TARGET_DIR -name junit.xml | head
python3 - <<'PY'
import json,re
base=json.load(open('/root/.vp/BASELINE.json'))
stable=set(base['stable_pass'])
log=open('/work/_baseline/log.txt').read()
failed=set()
for m in re.finditer(r"^\s+(?:FAIL|TIMEOUT|SIGABRT|SIGSEGV|LEAK)\s+\[[^\]]*\]\s+\(\s*\d+/\d+\)\s+(\S+)\s+(\S+)", log, re.M):
    failed.add(f"{m.group(1)}::{m.group(2)}")
summ=re.search(r"Summary \[.*?\] (\d+) tests run: (\d+) passed", log)
bad=sorted(stable & failed)
print("summary:", summ.group(0) if summ else "NO SUMMARY (build failure?)")
print("failed:", sorted(failed))
print("stable tests that failed:", bad)
json.dump({"summary": summ.group(0) if summ else None, "failed": sorted(failed), "stable_failed": bad}, open('/work/_baseline/result.json','w'), indent=1)
PY
git -C /repo worktree remove --force $D
