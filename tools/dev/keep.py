#!/usr/bin/env python3
# keep.py <Cxx><tag> "<detected: how>" : stores the seed under /verif/seeded/ and removes the scratch worktree
import json,os,shutil,subprocess,sys
name,det=sys.argv[1],sys.argv[2]
src=f"/tmp/seed/{name}"
dst=f"/verif/seeded/{name}"
os.makedirs(dst,exist_ok=True)
for f in os.listdir(f"{src}/seed_out"):
    shutil.copy(f"{src}/seed_out/{f}",dst)
m=json.load(open(f"{dst}/meta.json"))
m["confirmed_by_integrator"]=open(f"/tmp/seed/{name}.confirm.txt").read().split("== existing tests with patch")[-1][-900:] if os.path.exists(f"/tmp/seed/{name}.confirm.txt") else "see DESIGN §12"
m["check_result"]=det
json.dump(m,open(f"{dst}/meta.json","w"),indent=1)
subprocess.run(["git","-C","/repo","worktree","remove","--force",src])
for f in (f"{src}.prompt.md",f"{src}.confirm.txt"):
    if os.path.exists(f): os.remove(f)
print("kept",dst)
