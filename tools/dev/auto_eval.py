#!/usr/bin/env python3
# auto_eval.py <name> ... : derive testfile/filter from the demo header and run eval.sh
import re,subprocess,sys
for n in sys.argv[1:]:
    prop=n[:3]
    import glob
    demo=glob.glob(f"/tmp/seed/{n}/seed_out/demo.*")
    txt=open(demo[0]).read() if demo else ""
    head="\n".join(txt.split("\n")[:40])
    m=re.search(r"(lib/src/[A-Za-z0-9_/]+\.rs)", head)
    tf=m.group(1) if m else "NONE"
    f=re.search(r"--lib\s+([A-Za-z0-9_:]+)", head)
    flt=f.group(1) if f else "NONE"
    print(f"##### {n}: testfile={tf} filter={flt}", flush=True)
    subprocess.run(["/work/_seedtools/eval.sh", n, prop, tf, flt])
