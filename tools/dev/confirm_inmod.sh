#!/bin/bash
# confirm_inmod.sh <dir> <file> <filter> [extra cargo test args]: paste demo.rs before the LAST closing brace of <file> (inside its tests module)
D=$1; TF=$2; F=$3; shift 3
cd $D; export CARGO_TARGET_DIR=$D/target CARGO_NET_OFFLINE=true
git checkout -q -- . ; git apply seed_out/patch.diff
python3 - "$TF" <<'PY'
import sys
p=sys.argv[1]; s=open(p).read().rstrip(); assert s.endswith('}')
open(p,'w').write(s[:-1]+open('seed_out/demo.rs').read()+'\n}\n')
PY
echo "== demo with patch (expect FAIL)"; cargo test --offline -p opcua --lib $F "$@" 2>&1 | grep -E "^test |test result|^error" | head
git apply -R seed_out/patch.diff
echo "== demo without patch (expect ok)"; cargo test --offline -p opcua --lib $F "$@" 2>&1 | grep -E "^test |test result|^error" | head
git checkout -q -- . ; git apply seed_out/patch.diff
