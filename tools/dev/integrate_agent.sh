#!/bin/bash
# /work/_integrate.sh <agent> : merge the agent's verif branch into /verif main and cherry-pick its repo commits into /repo main
A=$1
set -e
cd /repo
if [ -n "$(git status --porcelain --untracked-files=no)" ]; then echo "/repo dirty"; exit 1; fi
done_shas=$(git log main --format=%B | grep -o "cherry picked from commit [0-9a-f]*" | awk '{print $5}')
for c in $(git rev-list --reverse --no-merges main..agent-$A); do
  if echo "$done_shas" | grep -q "$c"; then continue; fi
  # commits that came into the agent branch by merging main are not the agent's
  echo "cherry-pick $(git log --oneline -1 $c)"
  git cherry-pick -x $c >/dev/null 2>&1 || {
    if git log --format=%s -1 $c | grep -q "^verif hook"; then
      /work/_union.py $(git diff --name-only --diff-filter=U) && git add -A lib && git -c core.editor=true cherry-pick --continue >/dev/null && echo "  (hook conflict resolved by union)" && continue
    fi
    echo "CONFLICT cherry-picking $c — resolve in /repo (git status), then 'git cherry-pick --continue' and rerun"; exit 2; }
  true
done
cd /verif
git merge --no-edit agent-$A >/dev/null 2>&1 || {
  for f in $(git diff --name-only --diff-filter=U); do
    case $f in
      MANIFEST.json) git checkout --ours MANIFEST.json 2>/dev/null || true; git add MANIFEST.json;;
      evidence/*) git checkout --theirs "$f"; git add "$f";;
      harness/src/main.rs) git checkout --ours "$f"; git add "$f";;
      harness/Cargo.toml.in) python3 - <<'PY'
import re
p='/verif/harness/Cargo.toml.in'
s=open(p).read()
def res(m):
    a=m.group(1).split('\n'); b=m.group(2).split('\n')
    out=[]
    for l in a+b:
        if l and l not in out: out.append(l)
    return '\n'.join(out)+'\n'
s=re.sub(r"<<<<<<< [^\n]*\n(.*?)=======\n(.*?)>>>>>>> [^\n]*\n", res, s, flags=re.S)
open(p,'w').write(s)
PY
        git add "$f";;
      *) echo "CONFLICT in $f"; exit 3;;
    esac
  done
  git commit --no-edit -q
}
# agents may have added `mod x;` lines to main.rs: helper modules are generated now
python3 - <<'PY'
import re
p='/verif/harness/src/main.rs'
s=open(p).read()
keep=[]
for l in s.split('\n'):
    m=re.match(r"^mod (\w+);$", l)
    if m and m.group(1) not in ('common','fixtures','props'): continue
    keep.append(l)
open(p,'w').write('\n'.join(keep))
PY
python3 tools/gen_registry.py
git add -A; git commit -qm "integrate agent-$A: regenerate MANIFEST" || true
echo "integrated $A: $(ls props | tr '\n' ' ')"
