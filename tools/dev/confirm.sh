#!/bin/bash
# confirm.sh <dir> <testfile-to-append-demo-to> <demo test name>
# 1. existing lib tests with the patch  2. demo fails with patch  3. demo passes without
D=$1; TF=$2; NAME=$3
cd $D
export CARGO_TARGET_DIR=$D/target CARGO_NET_OFFLINE=true
git checkout -q -- . ; git apply seed_out/patch.diff || exit 9
echo "== existing tests with patch"; cargo test --offline -p opcua --lib 2>&1 | grep -E "^test result|FAILED|failed" | head -20
grep -v "^//" seed_out/demo.rs > /dev/null
cat seed_out/demo.rs >> $TF
echo "== demo with patch (expect FAIL)"; cargo test --offline -p opcua --lib $NAME 2>&1 | grep -E "^test |test result" | head
git apply -R seed_out/patch.diff
echo "== demo without patch (expect ok)"; cargo test --offline -p opcua --lib $NAME 2>&1 | grep -E "^test |test result" | head
git checkout -q -- . ; git apply seed_out/patch.diff
