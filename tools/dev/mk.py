#!/usr/bin/env python3
# mk.py <Cxx> <tag> : creates worktree /tmp/seed/<Cxx><tag> and prints the prompt
import json,subprocess,sys
pid,tag=sys.argv[1],sys.argv[2]
wt=f"/tmp/seed/{pid}{tag}"
subprocess.run(["git","-C","/repo","worktree","add","-q","--detach",wt,"main"],check=True)
# pre-seed the build directory with compiled dependencies (registry crates are path independent)
subprocess.run(["cp","-a","--reflink=auto","/work/_baseline/target",f"{wt}/target"])
p=[json.loads(l) for l in open('/verif/properties.jsonl')]
p=[x for x in p if x['id']==pid][0]
t=open('/tmp/seed/PROMPT.md').read()
for k,v in {"@WT@":wt,"@TITLE@":p['title'],"@STATEMENT@":p['statement'],"@QUANT@":p['quantifier']['text'],"@FILES@":", ".join(p['anchors']['files']),"@ID@":pid}.items():
    t=t.replace(k,v)
open(f"{wt}.prompt.md","w").write(t)
print(f"{wt}.prompt.md")
