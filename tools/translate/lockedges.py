#!/usr/bin/env python3
"""T5 — lock edges.  python3 lockedges.py <REPO> <VERIF_ROOT>

Builds the harness against <REPO> (tracing macros enabled by the cfg flag), executes the canonical
C38 workload (`harness gen C38 1 0 quick`: a real server on a loopback socket driven by real client
sessions) and turns the observed (held class -> acquired class) nestings into
lean/OpcuaVerif/Generated/LockEdges.lean:

  rankTable    : a rank for every lock class, computed here (topological order of the condensation
                 of the nesting graph) and CHECKED by Lean (`observed_edges_ranked`, `decide`)
  rankedEdges  : nestings between different strongly connected components (must respect the rank)
  cyclicEdges  : nestings inside one component — no rank can order them (the recorded finding)
  inversions   : pairs (a, b) with both a -> b and b -> a observed

Exit status != 0: the workload could not be executed to its end (a failed obligation).
The file is rewritten only when its content changes."""
import fcntl, os, re, subprocess, sys


def main():
    repo, root = sys.argv[1], sys.argv[2]
    harness = f"{root}/harness"
    tmpl = open(f"{harness}/Cargo.toml.in").read().replace("@REPO@", repo)
    try:
        cur = open(f"{harness}/Cargo.toml").read()
    except FileNotFoundError:
        cur = None
    if cur != tmpl:
        open(f"{harness}/Cargo.toml", "w").write(tmpl)
    if not os.path.exists(f"{harness}/Cargo.lock"):
        import shutil
        shutil.copy(f"{repo}/Cargo.lock", f"{harness}/Cargo.lock")
    env = dict(os.environ, CARGO_NET_OFFLINE="true")
    with open(f"{root}/.cargo.lock", "w") as lf:
        fcntl.flock(lf, fcntl.LOCK_EX)
        p = subprocess.run(["cargo", "build", "--offline", "--quiet"], cwd=harness, env=env, capture_output=True, text=True)
        fcntl.flock(lf, fcntl.LOCK_UN)
    if p.returncode != 0:
        print("harness does not build:\n" + "\n".join(l for l in p.stderr.splitlines() if l.startswith("error"))[:1500])
        return 1
    try:
        p = subprocess.run([f"{harness}/target/debug/harness", "gen", "C38", "1", "0", "quick"],
                           capture_output=True, text=True, timeout=600)
    except subprocess.TimeoutExpired:
        print("workload timed out")
        return 1
    if p.returncode != 0:
        print("workload failed: " + p.stderr[-800:])
        return 1
    # the harness answers `edge` ops from what this run showed (same binary, moments ago)
    open(f"{harness}/target/c38-observed.txt", "w").write(p.stdout)
    edges, sites, complete = [], {}, False
    for l in p.stdout.splitlines():
        m = re.match(r"# edge (.*) -> (.*) same_instance=(true|false) held at (\S+)\((.)\) acquired at (\S+)\((.)\) x(\d+)$", l)
        if m:
            edges.append(dict(h=m.group(1), a=m.group(2), same=m.group(3) == "true", hs=m.group(4), hm=m.group(5),
                              s=m.group(6), m=m.group(7), n=int(m.group(8))))
        m = re.match(r"# site (\S+):(\d+) (\d+)$", l)
        if m:
            sites[(os.path.relpath(m.group(1), repo), int(m.group(2)))] = int(m.group(3))
        if l.startswith("# workload-complete true"):
            complete = True
    if not complete or not edges:
        print("the canonical workload did not run to its end; stderr: " + p.stderr[-800:])
        return 1

    pairs = sorted({(e["h"], e["a"]) for e in edges})
    classes = sorted({c for p_ in pairs for c in p_})
    succ = {c: [] for c in classes}
    for h, a in pairs:
        succ[h].append(a)

    # Tarjan
    index, low, on, stack, comps, counter = {}, {}, set(), [], [], [0]
    sys.setrecursionlimit(10000)

    def strong(v):
        index[v] = low[v] = counter[0]; counter[0] += 1
        stack.append(v); on.add(v)
        for w in succ[v]:
            if w not in index:
                strong(w); low[v] = min(low[v], low[w])
            elif w in on:
                low[v] = min(low[v], index[w])
        if low[v] == index[v]:
            comp = []
            while True:
                w = stack.pop(); on.discard(w); comp.append(w)
                if w == v:
                    break
            comps.append(sorted(comp))
    for c in classes:
        if c not in index:
            strong(c)
    # Tarjan emits components in reverse topological order
    comps.reverse()
    comp_of = {c: i for i, comp in enumerate(comps) for c in comp}
    rank = {c: comp_of[c] for c in classes}
    ranked = [(h, a) for h, a in pairs if comp_of[h] != comp_of[a]]
    cyclic = [(h, a) for h, a in pairs if comp_of[h] == comp_of[a]]
    inversions = sorted({(h, a) for h, a in cyclic if h < a and (a, h) in set(cyclic)})

    # call sites in the source, for coverage
    total_sites = set()
    for sub in ("lib/src/server", "lib/src/core"):
        for dp, dn, fn in os.walk(f"{repo}/{sub}"):
            if "/tests" in dp:
                continue
            for f in fn:
                if not f.endswith(".rs"):
                    continue
                path = os.path.join(dp, f)
                for k, line in enumerate(open(path, errors="replace"), 1):
                    if re.search(r"\btrace_(read_|write_)?lock!\(", line) and not line.lstrip().startswith("//"):
                        total_sites.add((os.path.relpath(path, repo), k))
    hit = {s for s in sites if s in total_sites}
    missed = sorted(total_sites - hit)
    by_file = {}
    for f_, l_ in missed:
        by_file.setdefault(f_.replace("lib/src/", ""), []).append(l_)
    missed_txt = "; ".join(f"{f_}:{','.join(map(str, ls))}" for f_, ls in sorted(by_file.items()))

    def q(s):
        return '"' + s.replace("\\", "\\\\").replace('"', '\\"') + '"'

    # classes are numbered in rank order; Lean works on the numbers, the driver maps names to numbers
    order = sorted(classes, key=lambda c: (rank[c], c))
    cid = {c: i for i, c in enumerate(order)}

    def pl(ps):
        return "[" + ", ".join(f"({cid[h]}, {cid[a]})" for h, a in ps) + "]"

    info = {(e["h"], e["a"]): e for e in edges}

    def where(h, a):
        e = info[(h, a)]
        return f"[{e['hs']}({e['hm']}) -> {e['s']}({e['m']}){', same lock object' if e['same'] else ''}]".replace(repo + "/", "")

    out = ["-- GENERATED by tools/translate/lockedges.py from the observed lock nestings — do not edit",
           "namespace OpcuaVerif.C38.Gen", "",
           "/-- the observed lock classes (type name of the protected value); a class is referred to by its",
           "position in this list -/",
           "def classNames : List String := [\n" + ",\n".join(f"  {q(c)}" for c in order) + "]", "",
           "/-- rank of every class (index of its strongly connected component in a topological order of",
           "the nesting graph) -/",
           "def rankTable : List (Nat × Nat) := [" + ", ".join(f"({cid[c]}, {rank[c]})" for c in order) + "]", "",
           "/-- observed nestings (held, acquired) between different components",
           ] + [f"  {cid[h]} {h} -> {cid[a]} {a}   {where(h, a)}" for h, a in ranked] + ["-/",
           "def rankedEdges : List (Nat × Nat) := " + pl(ranked), "",
           "/-- observed nestings inside one component: no rank orders them",
           ] + [f"  {cid[h]} {h} -> {cid[a]} {a}   {where(h, a)}" for h, a in cyclic] + ["-/",
           "def cyclicEdges : List (Nat × Nat) := " + pl(cyclic), "",
           "/-- pairs observed in both orders -/",
           "def inversions : List (Nat × Nat) := " + pl(inversions), "",
           "end OpcuaVerif.C38.Gen", ""]
    text = "\n".join(out)
    path = f"{root}/lean/OpcuaVerif/Generated/LockEdges.lean"
    try:
        same = open(path).read() == text
    except FileNotFoundError:
        same = False
    if not same:
        os.makedirs(os.path.dirname(path), exist_ok=True)
        open(path, "w").write(text)
    print(f"{len(classes)} lock classes, {len(pairs)} nestings ({len(ranked)} ranked, {len(cyclic)} inside a cycle, "
          f"{len(inversions)} inverted pairs); executed {len(hit)} of {len(total_sites)} trace_*lock! call sites in lib/src/server + lib/src/core; "
          f"{'rewritten' if not same else 'unchanged'}; sites not executed: {missed_txt}")
    return 0


if __name__ == "__main__":
    sys.exit(main())
