#!/usr/bin/env python3
"""C22 translator: python3 c22_rows.py <REPO> <VERIF_ROOT>

Reads `Subscription::update_state` (lib/src/server/subscriptions/subscription.rs) and regenerates
lean/OpcuaVerif/Generated/C22Rows.lean: for every numbered row of the Part 4 state table that the
function implements, the row number (from the `// State #n` comment AND from the `HandledState`
variant returned, which must agree with the enum's discriminant), the action returned and the
ordered list of effects on the subscription (`reset_lifetime_counter`, `start_publishing_timer`,
`reset_keep_alive_counter`, `keep_alive_counter -= 1`, `state = …`, `first_message_sent = …`).
For every row it also emits the states of the enclosing `match self.state` arm and the GUARD of
the row, parsed into a Boolean expression over named atoms (comparisons keep their operator and
constant), in source order.  `Proofs/C22.lean` proves (`rows_exact`) that interpreting the
regenerated table — first row, in source order, whose arm contains the state and whose guard holds;
its effects in order — IS the hand-written model of `update_state`, for every state and input.  So
an edit of a guard (e.g. `> 1` to `>= 1`), of an action, or of the order of the rows in the Rust
source breaks the proof obligation.
Exit status != 0: the function no longer has the shape this translator understands."""
import os, re, sys

EFFECTS = [
    (r"self\.reset_lifetime_counter\(\)", lambda m: ".resetLife"),
    (r"self\.start_publishing_timer\(\)", lambda m: ".startTimer"),
    (r"self\.reset_keep_alive_counter\(\)", lambda m: ".resetKa"),
    (r"self\.keep_alive_counter\s*-=\s*1", lambda m: ".decKa"),
    (r"self\.state\s*=\s*SubscriptionState::(\w+)", lambda m: "(.setState .%s)" % (m.group(1)[0].lower() + m.group(1)[1:])),
    (r"self\.first_message_sent\s*=\s*(true|false)", lambda m: "(.setSent %s)" % m.group(1)),
]
ACTIONS = {"None": ".none", "ReturnKeepAlive": ".keepAlive", "ReturnNotifications": ".notifications",
           "SubscriptionCreated": ".created", "SubscriptionExpired": ".expired"}


def fail(msg):
    print("c22_rows: " + msg)
    sys.exit(1)



ATOMS = {
    "self.publishing_enabled": ".enabled", "self.first_message_sent": ".sent",
    "p.more_notifications": ".more", "p.notifications_available": ".na",
    "p.publishing_req_queued": ".req", "p.publishing_timer_expired": ".expired",
}
CMPS = {"==": ".eq", "!=": ".ne", ">": ".gt", ">=": ".ge", "<": ".lt", "<=": ".le"}


def parse_guard(text, num):
    toks = re.findall(r"&&|\|\||==|!=|>=|<=|[!()<>]|[A-Za-z_][\w:.]*|\d+", text)
    if "".join(toks) != re.sub(r"\s+", "", text):
        fail(f"row #{num}: guard has characters the translator does not know: {text!r}")
    pos = [0]

    def peek():
        return toks[pos[0]] if pos[0] < len(toks) else None

    def take():
        pos[0] += 1
        return toks[pos[0] - 1]

    def p_or():
        a = p_and()
        while peek() == "||":
            take()
            a = f"(.or {a} {p_and()})"
        return a

    def p_and():
        a = p_un()
        while peek() == "&&":
            take()
            a = f"(.and {a} {p_un()})"
        return a

    def p_un():
        t = peek()
        if t == "!":
            take()
            return f"(.not {p_un()})"
        if t == "(":
            take()
            a = p_or()
            if take() != ")":
                fail(f"row #{num}: unbalanced parentheses in guard")
            return a
        t = take()
        if t == "tick_reason":
            if take() != "==":
                fail(f"row #{num}: tick_reason compared with something else than ==")
            v = take()
            if v == "TickReason::ReceivePublishRequest":
                return ".recv"
            if v == "TickReason::TickTimerFired":
                return "(.not .recv)"
            fail(f"row #{num}: unknown tick reason {v}")
        if t in ("self.keep_alive_counter", "self.lifetime_counter"):
            op, n = take(), take()
            if op not in CMPS or not n.isdigit():
                fail(f"row #{num}: comparison not understood: {t} {op} {n}")
            return "(.%s %s %s)" % ("ka" if t == "self.keep_alive_counter" else "life", CMPS[op], n)
        if t in ATOMS:
            return ATOMS[t]
        fail(f"row #{num}: unknown atom {t!r} in guard")

    a = p_or()
    if pos[0] != len(toks):
        fail(f"row #{num}: trailing tokens in guard {text!r}")
    return a


def guard_and_states(body, at, num):
    """the guard of the `if`/`else if` whose block contains position `at`, and the states of the
    enclosing `match self.state` arm"""
    # the opening brace of the block: last `{` before the comment, with nothing but whitespace between
    j = body.rfind("{", 0, at)
    if j < 0 or re.sub(r"//[^\n]*", "", body[j + 1:at]).strip():
        fail(f"row #{num}: the `// State` comment is not the first thing in its block")
    head = body[:j]
    # statement-level text before the brace: back to the previous `{`, `}` or `;`
    k = max(head.rfind("{"), head.rfind("}"), head.rfind(";"))
    stmt = head[k + 1:].strip()
    m = re.match(r"^(?:else\s+)?if\s+(.*)$", stmt, re.S)
    if m:
        guard = parse_guard(m.group(1), num)
    elif re.match(r"^SubscriptionState::\w+\s*=>$", stmt):
        guard = ".tt"                                  # the match arm itself (row #3)
    else:
        fail(f"row #{num}: cannot find the guard in {stmt!r}")
    # enclosing match arm: the last `SubscriptionState::A | SubscriptionState::B => {` before `at`
    arms = list(re.finditer(r"((?:SubscriptionState::\w+\s*\|?\s*)+)=>\s*\{", body[:at]))
    if not arms:
        fail(f"row #{num}: no enclosing match arm")
    sts = re.findall(r"SubscriptionState::(\w+)", arms[-1].group(1))
    return guard, [".%s" % (x[0].lower() + x[1:]) for x in sts]


def main():
    repo, root = sys.argv[1], sys.argv[2]
    src = open(f"{repo}/lib/src/server/subscriptions/subscription.rs").read()
    # HandledState discriminants
    m = re.search(r"enum HandledState\s*\{(.*?)\}", src, re.S)
    if not m:
        fail("enum HandledState not found")
    handled = {k: int(v) for k, v in re.findall(r"(\w+)\s*=\s*(\d+)", m.group(1))}
    m = re.search(r"pub\(crate\) fn update_state\(.*?\n    \}\n", src, re.S)
    if not m:
        fail("fn update_state not found")
    body = m.group(0)
    body = re.sub(r"trace!\(.*?\);", "", body, flags=re.S)       # the debug trace mentions self.* fields
    if not re.search(r"if tick_reason == TickReason::ReceivePublishRequest && p\.publishing_timer_expired \{\s*panic!", body):
        fail("the initial `ReceivePublishRequest && publishing_timer_expired` panic is gone")
    parts = re.split(r"// State #(\d+)", body)
    offsets = [m.start() for m in re.finditer(r"// State #\d+", body)]
    rows = []
    for k in range(1, len(parts), 2):
        num, seg = int(parts[k]), parts[k + 1]
        at = offsets[(k - 1) // 2]
        r = re.search(r"return UpdateStateResult::new\(\s*HandledState::(\w+),\s*UpdateStateAction::(\w+),?\s*\)", seg)
        if not r or (k + 2 < len(parts) and r.start() > len(seg)):
            continue                                                # `// State #2` is a remark without code
        seg = seg[:r.start()]
        # everything that touches `self` before the return must be a known effect
        effs, pos = [], 0
        stmts = [s.strip() for s in seg.split(";")]
        for st in stmts:
            st = re.sub(r"//.*", "", st).strip()
            if "self." not in st:
                continue
            for pat, mk in EFFECTS:
                mm = re.fullmatch(pat, st)
                if mm:
                    effs.append(mk(mm))
                    break
            else:
                fail(f"row #{num}: statement not understood: {st!r}")
        hname, aname = r.group(1), r.group(2)
        if hname not in handled:
            fail(f"row #{num}: unknown HandledState::{hname}")
        if handled[hname] != num:
            fail(f"row #{num}: returns HandledState::{hname} = {handled[hname]} (numbering disagrees with the comment)")
        if aname not in ACTIONS:
            fail(f"row #{num}: unknown action {aname}")
        guard, sts = guard_and_states(body, at, num)
        rows.append((at, num, ACTIONS[aname], effs, guard, sts))
    nums = sorted(r[1] for r in rows)
    expect = [3, 4, 5, 6, 7, 8, 9, 10, 11, 12, 13, 14, 15, 16, 17, 27]
    if nums != expect:
        fail(f"rows found {nums}, expected {expect}")
    rows.sort()                                                 # source order
    lines = ["-- GENERATED by tools/translate/c22_rows.py from lib/src/server/subscriptions/subscription.rs — do not edit",
             "import OpcuaVerif.Model.C22", "namespace OpcuaVerif.C22",
             "/-- the rows of `Subscription::update_state` in source order: number, states of the match arm, guard, action, effects -/",
             "def generatedRows : List Row := ["]
    lines += ["  { num := %d, states := [%s], guard := %s,\n    action := %s, effs := [%s] }%s" % (n, ", ".join(st), g, a, ", ".join(e), "," if i + 1 < len(rows) else "")
              for i, (_, n, a, e, g, st) in enumerate(rows)]
    lines += ["]", "end OpcuaVerif.C22", ""]
    text = "\n".join(lines)
    path = f"{root}/lean/OpcuaVerif/Generated/C22Rows.lean"
    os.makedirs(os.path.dirname(path), exist_ok=True)
    try:
        old = open(path).read()
    except FileNotFoundError:
        old = None
    if old != text:
        open(path, "w").write(text)
    print(f"{len(rows)} rows of update_state with guards, {sum(len(r[3]) for r in rows)} effects; HandledState numbering agrees")


if __name__ == "__main__":
    main()
