#!/usr/bin/env python3
"""T1 translator: generated service types -> Lean schemas + Rust dispatch table.

    python3 service_types.py <REPO> <VERIF_ROOT>

Reads lib/src/types/service_types/*.rs (machine generated, regular), enums.rs, and the two hand-written
headers (request_header.rs, response_header.rs).  For every struct it extracts the declared field list
and the field order as it appears in `byte_len`, `encode`, `decode` and in the constructor expression of
`decode`; for every enum / bitflags type the wire width and the accepted discriminants / the flag mask.

Writes (only when the content changes)
  lean/OpcuaVerif/Generated/Schemas.lean   `Ty` terms per struct, `schemas`, the five orders per struct
  harness/src/enc/dispatch.rs              name -> decode/encode of the real type, and the schema table
Exit status != 0: a file could not be parsed ("translator cannot read the source").
Deliberately dumb: regular expressions over whitespace-normalised text, no type inference.
"""
import glob, hashlib, os, re, sys

BUILTIN = {  # Rust type -> scalar type id of the Lean model (`Ty.sc`)
    "bool": 1, "i8": 2, "u8": 3, "i16": 4, "u16": 5, "i32": 6, "u32": 7, "i64": 8, "u64": 9,
    "f32": 10, "f64": 11, "UAString": 12, "DateTime": 13, "Guid": 14, "ByteString": 15,
    "XmlElement": 16, "NodeId": 17, "ExpandedNodeId": 18, "StatusCode": 19, "QualifiedName": 20,
    "LocalizedText": 21, "ExtensionObject": 22,
    # aliases in data_types.rs
    "UtcTime": 13, "IntegerId": 7, "Counter": 7, "Duration": 11,
}
RECURSIVE = {"Variant": "variant", "DataValue": "dataValue", "DiagnosticInfo": "diagInfo"}


WIDTH = {"u8": 1, "i8": 1, "i16": 2, "u16": 2, "i32": 4, "u32": 4}


class CannotRead(Exception):
    pass


def norm(src):
    src = re.sub(r"//[^\n]*", "", src)
    return re.sub(r"\s+", " ", src)


def body_of(text, start):
    """text[start] == '{' ; returns the text between the matching braces"""
    depth, i = 0, start
    while i < len(text):
        if text[i] == "{":
            depth += 1
        elif text[i] == "}":
            depth -= 1
            if depth == 0:
                return text[start + 1:i]
        i += 1
    raise CannotRead("unbalanced braces")


def fn_body(text, name):
    m = re.search(r"fn " + name + r"\b[^{]*\{", text)
    if not m:
        raise CannotRead("no fn " + name)
    return body_of(text, m.end() - 1)


def parse_struct(path):
    t = norm(open(path).read())
    m = re.search(r"pub struct (\w+) \{", t)
    if not m:
        raise CannotRead("no struct")
    name = m.group(1)
    fields = []
    fb = body_of(t, m.end() - 1)
    for fm in re.finditer(r"pub (\w+) ?: ?([^,]+?) ?,", fb + ","):
        fields.append((fm.group(1), fm.group(2).strip()))
    if re.sub(r"pub \w+ ?: ?[^,]+? ?,", "", fb + ",").strip(" ,") != "":
        raise CannotRead("unparsed struct field text in " + name)
    im = re.search(r"impl BinaryEncoder<" + name + r"> for " + name + r" \{", t)
    if not im:
        raise CannotRead("no BinaryEncoder impl")
    impl = body_of(t, im.end() - 1)
    # byte_len
    bl = fn_body(impl, "byte_len")
    len_order = []
    rest = bl
    for sm in re.finditer(r"size \+= (?:self ?\. ?(\w+) ?\. ?byte_len\(\)|byte_len_array\(&self ?\. ?(\w+)\)) ?;", bl):
        len_order.append((sm.group(1) or sm.group(2), "arr" if sm.group(2) else "one"))
    rest = re.sub(r"size \+= (?:self ?\. ?\w+ ?\. ?byte_len\(\)|byte_len_array\(&self ?\. ?\w+\)) ?;", "", bl)
    if rest.replace("let mut size = 0;", "").replace("let mut size: usize = 0;", "").strip() not in ("size", "0"):
        raise CannotRead("unparsed byte_len text in %s: %r" % (name, rest))
    # encode
    eb = fn_body(impl, "encode")
    enc_order = []
    pat = r"size \+= (?:self ?\. ?(\w+) ?\. ?encode\(stream\)\?|write_array\(stream, &self ?\. ?(\w+)\)\?) ?;"
    for sm in re.finditer(pat, eb):
        enc_order.append((sm.group(1) or sm.group(2), "arr" if sm.group(2) else "one"))
    rest = re.sub(pat, "", eb)
    rest = rest.replace("let mut size = 0;", "").replace("assert_eq!(size, self.byte_len());", "").strip()
    if rest not in ("Ok(size)", "Ok(0)"):
        raise CannotRead("unparsed encode text in %s: %r" % (name, rest))
    # decode
    db = fn_body(impl, "decode")
    dec_order = []
    pat = r"let (\w+) ?(?:: ?Option<Vec<([\w]+)>>)? ?= ?(?:(\w+)::decode\(stream, decoding_options\)\?|read_array\(stream, decoding_options\)\?) ?;"
    for sm in re.finditer(pat, db):
        if sm.group(2):
            dec_order.append((sm.group(1), "arr", sm.group(2)))
        elif sm.group(3):
            dec_order.append((sm.group(1), "one", sm.group(3)))
        else:
            raise CannotRead("read_array without element type in " + name)
    rest = re.sub(pat, "", db).strip()
    cm = re.fullmatch(r"Ok\(" + name + r" \{(.*)\}\)", rest)
    if not cm:
        raise CannotRead("unparsed decode text in %s: %r" % (name, rest))
    ctor = [x.strip() for x in cm.group(1).split(",") if x.strip()]
    return {"name": name, "fields": fields, "len": len_order, "enc": enc_order, "dec": dec_order, "ctor": ctor,
            "file": os.path.basename(path)}


def parse_enums(path):
    t = norm(open(path).read())
    out = {}
    for m in re.finditer(r"pub enum (\w+) \{", t):
        name = m.group(1)
        body = body_of(t, m.end() - 1)
        vals = [int(v) for v in re.findall(r"\w+ ?= ?(-?\d+)", body)]
        im = re.search(r"impl BinaryEncoder<" + name + r"> for " + name + r" \{", t)
        impl = body_of(t, im.end() - 1)
        width = int(fn_body(impl, "byte_len").strip())
        db = fn_body(impl, "decode")
        rd = re.search(r"let value = read_(u8|i16|i32|u32)\(stream\)\?;", db)
        if not rd:
            raise CannotRead("enum decode of " + name)
        arms = [int(v) for v in re.findall(r"(-?\d+) => Ok\(Self::\w+\)", db)]
        # the default arm: an error, or a fallback variant (`Ok(Self::Invalid)`)
        dm = re.search(r"v => \{ error!\([^;]*\); (Err\(StatusCode::\w+\)|Ok\(Self::(\w+)\)) \}", db)
        if not dm:
            raise CannotRead("enum default arm of " + name)
        fallback = None
        if dm.group(2):
            fm = re.search(dm.group(2) + r" ?= ?(-?\d+)", body)
            if not fm:
                raise CannotRead("enum fallback variant of " + name)
            fallback = int(fm.group(1))
        eb = fn_body(impl, "encode")
        wm = re.fullmatch(r"write_(u8|i16|i32|u32)\(stream, \*self as (u8|i16|i32|u32)\)", eb.strip())
        if not wm:
            raise CannotRead("enum encode of " + name)
        # the model takes the wire width from byte_len: read, write, cast and byte_len must all agree
        if not (rd.group(1) == wm.group(1) == wm.group(2) and WIDTH[rd.group(1)] == width):
            raise CannotRead(f"enum {name}: byte_len {width}, reads {rd.group(1)}, writes {wm.group(1)} as {wm.group(2)}")
        if sorted(vals) != sorted(set(vals)):
            raise CannotRead(f"enum {name}: duplicate discriminants")
        out[name] = {"kind": "enum", "width": width, "vals": vals, "arms": arms, "fallback": fallback}
    for m in re.finditer(r"pub struct (\w+) ?: ?(\w+) \{", t):
        name, rep = m.group(1), m.group(2)
        body = body_of(t, m.end() - 1)
        mask = 0
        for v in re.findall(r"const \w+ ?= ?(\d+);", body):
            mask |= int(v)
        im = re.search(r"impl BinaryEncoder<" + name + r"> for " + name + r" \{", t)
        impl = body_of(t, im.end() - 1)
        width = int(fn_body(impl, "byte_len").strip())
        if not re.search(name + r"::from_bits_truncate\( ?" + rep + r"::decode\(", fn_body(impl, "decode")):
            raise CannotRead("flags decode of " + name)
        if not re.fullmatch(r"write_" + rep + r"\(stream, self\.bits\(\)\)", fn_body(impl, "encode").strip()):
            raise CannotRead("flags encode of " + name)
        if WIDTH.get(rep) != width:
            raise CannotRead(f"flags {name}: byte_len {width} but representation {rep}")
        out[name] = {"kind": "flags", "width": width, "mask": mask, "rep": rep}
    return out


def parse_dispatch(repo):
    """`SupportedMessage::decode_by_object_id`: object id -> structure, every arm must be of the regular form"""
    t = norm(open(f"{repo}/lib/src/core/supported_message.rs").read())
    body = fn_body(t, "decode_by_object_id")
    mm = re.search(r"let decoded_message = match object_id \{", body)
    if not mm:
        raise CannotRead("decode_by_object_id: no match on object_id")
    arms = body_of(body, mm.end() - 1)
    pat = r"ObjectId::(\w+)_Encoding_DefaultBinary => \{ (\w+)::decode\(stream, decoding_options\)\?\.into\(\) \}"
    table = []
    for am in re.finditer(pat, arms):
        if am.group(1) != am.group(2):
            raise CannotRead(f"decode_by_object_id: id {am.group(1)} decodes {am.group(2)}")
        table.append(am.group(1))
    rest = re.sub(pat, "", arms).strip()
    if not re.fullmatch(r"_ => \{ debug!\([^;]*\); SupportedMessage::Invalid\(object_id\) \}", rest):
        raise CannotRead("decode_by_object_id: unparsed arms %r" % rest[:200])
    ids = norm(open(f"{repo}/lib/src/types/node_ids.rs").read())
    em = re.search(r"pub enum ObjectId \{", ids)
    ebody = body_of(ids, em.end() - 1)
    values = {m.group(1): int(m.group(2)) for m in re.finditer(r"(\w+) ?= ?(\d+) ?,", ebody + ",")}
    tm = re.search(r"impl TryFrom<u32> for ObjectId \{", ids)
    tbody = body_of(ids, tm.end() - 1)
    accepted = sorted(int(v) for v in re.findall(r"(\d+) => Ok\(ObjectId::\w+\)", tbody))
    if sorted(values.values()) != accepted:
        raise CannotRead("ObjectId: TryFrom<u32> does not accept exactly the declared discriminants")
    return [(values[n + "_Encoding_DefaultBinary"], n) for n in table], accepted


# the two hand-written headers: schema given here, guarded by a fingerprint of their codec impl
HAND = {
    "RequestHeader": ("request_header.rs",
                      [("authentication_token", "NodeId"), ("timestamp", "UtcTime"), ("request_handle", "IntegerId"),
                       ("return_diagnostics", "@flags:4:1023"), ("audit_entry_id", "UAString"),
                       ("timeout_hint", "u32"), ("additional_header", "ExtensionObject")]),
    "ResponseHeader": ("response_header.rs",
                       [("timestamp", "UtcTime"), ("request_handle", "IntegerId"), ("service_result", "StatusCode"),
                        ("service_diagnostics", "DiagnosticInfo"), ("string_table", "Option<Vec<UAString>>"),
                        ("additional_header", "ExtensionObject")]),
}


def hand_fingerprint(repo, fname, name):
    t = norm(open(f"{repo}/lib/src/types/{fname}").read())
    im = re.search(r"impl BinaryEncoder<" + name + r"> for " + name + r" \{", t)
    impl = body_of(t, im.end() - 1)
    return hashlib.sha256(impl.encode()).hexdigest()[:16]


HAND_EXPECTED = {"RequestHeader": None, "ResponseHeader": None}  # filled by self-test below


def write_if_changed(path, text):
    try:
        if open(path).read() == text:
            return False
    except FileNotFoundError:
        pass
    os.makedirs(os.path.dirname(path), exist_ok=True)
    open(path, "w").write(text)
    return True


def main():
    repo, root = sys.argv[1], sys.argv[2]
    sdir = f"{repo}/lib/src/types/service_types"
    structs, errors = {}, []
    for p in sorted(glob.glob(sdir + "/*.rs")):
        if os.path.basename(p) in ("enums.rs", "impls.rs", "mod.rs"):
            continue
        try:
            s = parse_struct(p)
            structs[s["name"]] = s
        except CannotRead as e:
            errors.append(f"{os.path.basename(p)}: {e}")
    try:
        enums = parse_enums(sdir + "/enums.rs")
    except Exception as e:  # noqa
        errors.append(f"enums.rs: {e}")
        enums = {}
    try:
        dispatch, object_ids = parse_dispatch(repo)
    except (CannotRead, KeyError) as e:
        errors.append(f"supported_message.rs: {e}")
        dispatch, object_ids = [], []
    fp = {}
    for name, (fname, fields) in HAND.items():
        fp[name] = hand_fingerprint(repo, fname, name)
        structs[name] = {"name": name, "fields": fields, "hand": True, "file": fname,
                         "len": [(f, "arr" if t.startswith("Option<Vec<") else "one") for f, t in fields],
                         "enc": [(f, "arr" if t.startswith("Option<Vec<") else "one") for f, t in fields],
                         "dec": [(f, "arr" if t.startswith("Option<Vec<") else "one", "") for f, t in fields],
                         "ctor": [f for f, _ in fields]}
    expected_fp = {"RequestHeader": "EXPECT_REQ", "ResponseHeader": "EXPECT_RESP"}
    pinned = os.path.join(os.path.dirname(os.path.abspath(__file__)), "service_types.expected")
    exp = {}
    if os.path.exists(pinned):
        for l in open(pinned):
            k, _, v = l.strip().partition("=")
            exp[k] = v
    for name in HAND:
        if exp.get("fp_" + name) and exp["fp_" + name] != fp[name]:
            errors.append(f"{HAND[name][0]}: hand-written codec of {name} changed (fingerprint {fp[name]}, schema in the translator was written for {exp['fp_' + name]})")

    # ---- resolve field types
    def ty_of(t, stack):
        am = re.fullmatch(r"Option<Vec<(\w+)>>", t)
        if am:
            return ("arr", ty_of(am.group(1), stack))
        fm = re.fullmatch(r"@flags:(\d+):(\d+)", t)
        if fm:
            return ("flags", int(fm.group(1)), int(fm.group(2)))
        if t in BUILTIN:
            return ("sc", BUILTIN[t])
        if t in RECURSIVE:
            return (RECURSIVE[t],)
        if t in enums:
            e = enums[t]
            if e["kind"] == "enum":
                m = 1 << (8 * e["width"])
                return ("enm", e["width"], tuple(v % m for v in e["arms"]), None if e["fallback"] is None else e["fallback"] % m)
            return ("flags", e["width"], e["mask"])
        if t in structs:
            if t in stack:
                raise CannotRead("recursive struct " + t)
            return ("ref", t)
        raise CannotRead("unknown field type " + t)

    order = []  # topological
    seen = set()

    def visit(n, stack):
        if n in seen:
            return
        s = structs[n]
        tys = []
        for f, t in s["fields"]:
            ty = ty_of(t, stack + [n])
            tys.append(ty)
            inner = ty
            while inner[0] == "arr":
                inner = inner[1]
            if inner[0] == "ref":
                visit(inner[1], stack + [n])
        s["tys"] = tys
        seen.add(n)
        order.append(n)

    for n in sorted(structs):
        try:
            visit(n, [])
        except CannotRead as e:
            errors.append(f"{structs[n]['file']}: {e}")
    # decode element types must agree with the declared field types
    for n in order:
        s = structs[n]
        if s.get("hand"):
            continue
        decl = dict(s["fields"])
        for f, kind, et in s["dec"]:
            d = decl.get(f, "")
            want = re.fullmatch(r"Option<Vec<(\w+)>>", d).group(1) if kind == "arr" and d.startswith("Option<Vec<") else d
            if et != want:
                errors.append(f"{s['file']}: decode of field {f} uses {et}, declared {d}")
    if errors:
        print("translator cannot read the source:\n  " + "\n  ".join(errors))
        return 1

    # ---- Lean
    def lean_ty(ty):
        k = ty[0]
        if k == "sc":
            return f".sc {ty[1]}"
        if k in ("variant", "dataValue", "diagInfo"):
            return "." + k
        if k == "enm":
            fb = "none" if ty[3] is None else f"(some {ty[3]})"
            return f".enm {ty[1]} [{', '.join(str(v) for v in ty[2])}] {fb}"
        if k == "flags":
            return f".flags {ty[1]} {ty[2]}"
        if k == "arr":
            return f".arr ({lean_ty(ty[1])})"
        if k == "ref":
            return "t" + ty[1]
        raise AssertionError(ty)

    L = ["-- GENERATED by tools/translate/service_types.py from lib/src/types/service_types/*.rs — do not edit",
         "import OpcuaVerif.Model.EncSchema", "namespace OpcuaVerif.Enc.Gen", "open OpcuaVerif.Enc", ""]
    for n in order:
        s = structs[n]
        L.append(f"def t{n} : Ty := .struct [{', '.join(lean_ty(t) for t in s['tys'])}]")
    L.append("")
    L.append("/-- every generated structure (and the two hand-written headers) with its schema -/")
    L.append("def schemas : List (String × Ty) := [")
    L.append(",\n".join(f'  ("{n}", t{n})' for n in sorted(order)))
    L.append("]")
    L.append("")
    L.append("/-- per structure: the field order of the declaration, of `byte_len`, of `encode`, of `decode` and of")
    L.append("the constructor expression in `decode`; a field is coded `2·(index in the declaration) + (1 if the")
    L.append("function treats it as an array)`, an unknown name as 999999 -/")
    L.append("def orders : List (String × List (List Nat)) := [")
    rows = []
    for n in sorted(order):
        s = structs[n]
        idx = {f: i for i, (f, _) in enumerate(s["fields"])}
        kinds = dict((f, ("arr" if t.startswith("Option<Vec<") else "one")) for f, t in s["fields"])
        code = lambda f, k: (2 * idx[f] + (1 if k == "arr" else 0)) if f in idx else 999999
        decl = [code(f, kinds[f]) for f, _ in s["fields"]]
        ln = [code(f, k) for f, k in s["len"]]
        en = [code(f, k) for f, k in s["enc"]]
        de = [code(x[0], x[1]) for x in s["dec"]]
        ct = [code(f, kinds.get(f, "one")) for f in s["ctor"]]
        q = lambda xs: "[" + ", ".join(str(x) for x in xs) + "]"
        rows.append(f'  ("{n}", [{q(decl)}, {q(ln)}, {q(en)}, {q(de)}, {q(ct)}])')
    L.append(",\n".join(rows))
    L.append("]")
    L.append("")
    L.append("/-- enums: accepted discriminants in `decode` = declared discriminants -/")
    L.append("def enumTables : List (String × List Int × List Int) := [")
    L.append(",\n".join(f'  ("{n}", [{", ".join(str(v) for v in e["vals"])}], [{", ".join(str(v) for v in e["arms"])}])'
                        for n, e in sorted(enums.items()) if e["kind"] == "enum"))
    L.append("]")
    L.append("")
    L.append("/-- `SupportedMessage::decode_by_object_id`: object id -> schema of the structure it decodes -/")
    L.append("def dispatchTable : List (Nat × Ty) := [")
    L.append(",\n".join(f"  ({i}, t{n})" for i, n in dispatch))
    L.append("]")
    L.append("")
    L.append("/-- … and the structure names, for the driver -/")
    L.append("def dispatchNames : List (Nat × String) := [")
    L.append(",\n".join(f'  ({i}, "{n}")' for i, n in dispatch))
    L.append("]")
    L.append("")
    L.append("/-- every discriminant of `ObjectId` (= what `ObjectId::try_from(u32)` accepts) -/")
    L.append("def objectIds : List Nat := [" + ", ".join(str(i) for i in object_ids) + "]")
    L.append("")
    L.append("end OpcuaVerif.Enc.Gen")
    changed = write_if_changed(f"{root}/lean/OpcuaVerif/Generated/Schemas.lean", "\n".join(L) + "\n")

    # ---- Rust
    def rust_ty(ty):
        k = ty[0]
        if k == "sc":
            return f"Ty::Sc({ty[1]})"
        if k == "variant":
            return "Ty::Variant"
        if k == "dataValue":
            return "Ty::DataValue"
        if k == "diagInfo":
            return "Ty::DiagInfo"
        if k == "enm":
            return f"Ty::Enum({ty[1]}, &[{', '.join(str(v) for v in ty[2])}])"
        if k == "flags":
            return f"Ty::Flags({ty[1]}, {ty[2]})"
        if k == "arr":
            return f"Ty::Arr(&{rust_ty(ty[1])})"
        if k == "ref":
            return f'Ty::Ref("{ty[1]}")'
        raise AssertionError(ty)

    R = ["// GENERATED by tools/translate/service_types.py — do not edit",
         "use super::Ty;", "use opcua::types::*;", "",
         "pub static SCHEMAS: &[(&str, &[Ty])] = &["]
    for n in sorted(order):
        R.append(f'    ("{n}", &[{", ".join(rust_ty(t) for t in structs[n]["tys"])}]),')
    R.append("];")
    R.append("")
    R.append("/// decode `bytes` as the named structure with the real code; (consumed, re-encoded bytes, byte_len, reported size)")
    R.append("pub fn decode_struct(name: &str, bytes: &[u8], o: &DecodingOptions) -> Option<Result<(usize, Vec<u8>, usize, usize), StatusCode>> {")
    R.append("    Some(match name {")
    for n in sorted(order):
        # explicit path: `types::Argument` is ambiguous (a hand-written, unused duplicate lives in types/argument.rs)
        path = n if structs[n].get("hand") else f"service_types::{n}"
        R.append(f'        "{n}" => super::run_struct::<{path}>(bytes, o),')
    R.append("        _ => return None,")
    R.append("    })")
    R.append("}")
    R.append("")
    R.append("/// object ids dispatched by `SupportedMessage::decode_by_object_id`, with the structure they decode")
    R.append("pub static DISPATCHED: &[(u32, &str)] = &[" + ", ".join(f'({i}, "{n}")' for i, n in dispatch) + "];")
    write_if_changed(f"{root}/harness/src/enc/dispatch.rs", "\n".join(R) + "\n")

    n_fields = sum(len(structs[n]["fields"]) for n in order)
    n_enum = sum(1 for e in enums.values() if e["kind"] == "enum")
    n_flags = sum(1 for e in enums.values() if e["kind"] == "flags")
    for i, n in dispatch:
        if n not in structs:
            errors.append(f"supported_message.rs: dispatched structure {n} has no schema")
    if errors:
        print("translator cannot read the source:\n  " + "\n  ".join(errors))
        return 1
    summary = f"structs={len(order)} fields={n_fields} enums={n_enum} flags={n_flags} dispatched={len(dispatch)} object_ids={len(object_ids)} fp_RequestHeader={fp['RequestHeader']} fp_ResponseHeader={fp['ResponseHeader']}"
    # self-test against the committed expected summary
    if exp:
        want = {k: v for k, v in exp.items()}
        got = dict(kv.split("=") for kv in summary.split(" "))
        diffs = [f"{k}: expected {want[k]}, got {got.get(k)}" for k in want if want[k] != got.get(k)]
        if diffs:
            print("NOTE summary differs from tools/translate/service_types.expected: " + "; ".join(diffs))
    print(summary + (" (Schemas.lean rewritten)" if changed else ""))
    return 0


if __name__ == "__main__":
    sys.exit(main())
