#!/usr/bin/env python3
"""C30 translator (T2): python3 c30_mutators.py <REPO> <VERIF_ROOT>

Reads lib/src/server/address_space/address_space.rs and regenerates
lean/OpcuaVerif/Generated/C30Mutators.lean: every `pub fn` of `impl AddressSpace` that takes
`&mut self` and (transitively, through calls on `self`) changes `node_map` or `references`, each
with the way it reaches `self.update_last_modified()`:

  ("name", "always", "")           the call (or a call of a function that always bumps) is a statement
                                   at the TOP LEVEL of the body — not nested inside if / match / loop /
                                   closure / any block — and no `return` / `?` occurs before it;
  ("name", "cond", "<guards>")     every path to the bump is nested or follows an early exit; <guards>
                                   is the canonical text of the enclosing block headers / early exits
                                   (alternatives separated by " || ");
  ("name", "never", "")            no path at all.

`OpcuaVerif.C30.all_mutators_bump` accepts "always" and the exact (name, guards) pairs listed in
`acceptedGuards` of Proofs/C30.lean (each reviewed against the model: the skipped case changes
nothing).  Anything else — a new guard, a changed guard, a bump moved into a branch — fails."""
import os, re, sys

def die(msg):
    print("c30_mutators: " + msg); sys.exit(1)

def strip_comments(src):
    src = re.sub(r"/\*.*?\*/", "", src, flags=re.S)
    return "\n".join(l.split("//")[0] for l in src.splitlines())

def body_at(src, i):
    depth = 0
    for j in range(i, len(src)):
        if src[j] == "{": depth += 1
        elif src[j] == "}":
            depth -= 1
            if depth == 0: return j + 1
    die("unbalanced braces")

def norm(s):
    return re.sub(r"\s+", " ", s).strip()

CALL = re.compile(r"self\s*\.\s*(\w+)\s*(?:::\s*<[^;{}]*?>\s*)?\(")
BUILDER_INSERT = re.compile(r"\.\s*insert\s*\(\s*self\s*\)")
DIRECT_MUT = re.compile(r"self\s*\.\s*node_map\s*\.\s*(insert|remove)\s*\(|self\s*\.\s*references\s*\.\s*(insert\w*|delete\w*)\s*\(")
EXIT = re.compile(r"\breturn\b|\?\s*[;)\n.]")

def scan(body, fns):
    """walks the body (text from '{' to matching '}'); returns (calls, direct_mut) where calls is a list
    of (callee, guard) — guard = tuple of canonical strings describing why the call is not an
    unconditional top-level statement (empty tuple = unconditional)."""
    calls = []
    stack = []            # headers of the enclosing blocks / parens (inside the fn body)
    last_closed = {}      # nesting level -> header of the block that closed last at that level
    exits = []            # early exits seen so far (canonical text of where)
    seg_start = 1         # start of the current "header" segment
    i = 1                 # skip the opening brace of the fn body
    n = len(body) - 1     # and the closing one
    while i < n:
        ch = body[i]
        if ch in "{(":
            header = norm(body[seg_start:i])
            if ch == "{" and header == "else":
                header = "else [" + last_closed.get(len(stack), "?") + "]"
            elif ch == "{" and header.startswith("else if"):
                header = header + " [after " + last_closed.get(len(stack), "?") + "]"
            # a '(' that merely opens the argument list of a call is not a guard unless it holds a closure
            if ch == "(":
                j = body_paren_end(body, i)
                inner = body[i + 1:j]
                header = "closure in " + norm(body[seg_start:i])[-40:] if re.search(r"\|[^|]*\|", inner) else None
            stack.append(header)
            if ch == "{":
                seg_start = i + 1
        elif ch in "})":
            if stack:
                h = stack.pop()
                if ch == "}" and h is not None:
                    last_closed[len(stack)] = h
            if ch == "}":
                seg_start = i + 1
        elif ch == ";":
            seg_start = i + 1
        # early exits
        m = EXIT.match(body, i)
        if m and (i == 0 or not (body[i - 1].isalnum() or body[i - 1] == "_")):
            guards = tuple(h for h in stack if h is not None)
            exits.append("exit in [" + " > ".join(guards) + "]" if guards else "exit at top level")
        # calls
        m = CALL.match(body, i)
        callee = None
        if m and (i == 0 or not (body[i - 1].isalnum() or body[i - 1] == "_")):
            if m.group(1) in fns:
                callee = m.group(1)
        else:
            m2 = BUILDER_INSERT.match(body, i)
            if m2:
                callee = "insert"
        if callee:
            guards = tuple(h for h in stack if h is not None) + tuple("after " + e for e in exits)
            calls.append((callee, guards))
        i += 1
    return calls, bool(DIRECT_MUT.search(body))

def body_paren_end(s, i):
    depth = 0
    for j in range(i, len(s)):
        if s[j] == "(": depth += 1
        elif s[j] == ")":
            depth -= 1
            if depth == 0: return j
    return len(s) - 1

def main():
    repo, root = sys.argv[1], sys.argv[2]
    path = os.path.join(repo, "lib/src/server/address_space/address_space.rs")
    try:
        src = strip_comments(open(path).read())
    except OSError as e:
        die(str(e))
    m = re.search(r"\nimpl AddressSpace \{", src)
    if not m: die("impl AddressSpace not found")
    impl = src[m.end() - 1: body_at(src, m.end() - 1)]
    fns = {}
    for fm in re.finditer(r"\n    (pub(?:\([a-z]+\))? )?fn (\w+)", impl):
        name, vis = fm.group(2), (fm.group(1) or "").strip()
        k = fm.end()
        depth = 0
        while k < len(impl):
            ch = impl[k]
            if ch in "(<[": depth += 1
            elif ch in ")>]":
                if not (ch == ">" and impl[k - 1] == "-"): depth -= 1
            elif ch == "{" and depth <= 0: break
            k += 1
        sig, end = impl[fm.start():k], body_at(impl, k)
        fns[name] = {"vis": vis, "mut": "&mut self" in sig, "body": impl[k:end]}
    if "update_last_modified" not in fns or len(fns) < 20:
        die("unexpected shape of impl AddressSpace (%d fns)" % len(fns))
    for f in fns.values():
        f["calls"], f["m"] = scan(f["body"], fns)
    # transitive "mutates"
    changed = True
    while changed:
        changed = False
        for f in fns.values():
            if not f["m"] and any(fns[c]["m"] for c, _ in f["calls"]):
                f["m"] = True; changed = True
    # paths to update_last_modified: set of guard tuples (empty tuple = always); fixpoint, depth-limited
    paths = {n: set() for n in fns}
    paths["update_last_modified"] = {()}
    for _ in range(8):
        for n, f in fns.items():
            if n == "update_last_modified":
                continue
            new = set()
            for c, g in f["calls"]:
                if c == n:
                    continue          # a recursive call cannot be the first to reach the bump
                for pg in paths[c]:
                    if any(x.startswith("in %s:" % n) for x in pg):
                        continue      # mutual recursion: same argument
                    via = () if c == "update_last_modified" else tuple("in %s: %s" % (c, x) for x in pg)
                    new.add(g + via)
            paths[n] = new
    rows = []
    for n, f in sorted(fns.items()):
        if f["vis"] == "pub" and f["mut"] and f["m"]:
            ps = paths[n]
            if () in ps:
                rows.append((n, "always", ""))
            elif ps:
                rows.append((n, "cond", " || ".join(sorted(" & ".join(p) for p in ps))))
            else:
                rows.append((n, "never", ""))
    need = {"insert", "insert_reference", "insert_references", "delete", "delete_reference", "add_variables",
            "add_folder_with_id", "set_node_type"}
    if not need <= {n for n, _, _ in rows}:
        die("expected mutators missing: %s" % sorted(need - {n for n, _, _ in rows}))
    esc = lambda s: s.replace("\\", "\\\\").replace('"', '\\"')
    out = ["-- GENERATED by tools/translate/c30_mutators.py from lib/src/server/address_space/address_space.rs — do not edit",
           "namespace OpcuaVerif.C30.Generated",
           "/-- `pub fn`s of `impl AddressSpace` with `&mut self` that change `node_map` / `references`:",
           "(name, \"always\" | \"cond\" | \"never\", canonical guards under which `update_last_modified()` is reached) -/",
           "def mutators : List (String × String × String) := ["]
    out += ["  (\"%s\", \"%s\", \"%s\")%s" % (n, k, esc(g), "," if i + 1 < len(rows) else "") for i, (n, k, g) in enumerate(rows)]
    out += ["]", "end OpcuaVerif.C30.Generated", ""]
    text = "\n".join(out)
    dst = os.path.join(root, "lean/OpcuaVerif/Generated/C30Mutators.lean")
    os.makedirs(os.path.dirname(dst), exist_ok=True)
    try:
        same = open(dst).read() == text
    except OSError:
        same = False
    if not same:
        open(dst, "w").write(text)
    print("%d structural mutators; not unconditional: %s" % (len(rows), [(n, k, g) for n, k, g in rows if k != "always"]))

if __name__ == "__main__":
    main()
