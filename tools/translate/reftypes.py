#!/usr/bin/env python3
"""Translator for C05: extracts the two reference-type name tables of
lib/src/types/relative_path.rs (`default_node_resolver`: browse name -> ReferenceTypeId,
`id_from_reference_type`: numeric id -> browse name) and the numeric values of `ReferenceTypeId`
(lib/src/types/node_ids.rs) and writes lean/OpcuaVerif/Generated/RefTypes.lean.

usage: reftypes.py <REPO> <VERIF_ROOT>      exit != 0: the source could not be read as expected."""
import os, re, sys

def chars(s):
    return "[" + ", ".join("'%s'" % c for c in s) + "]"

def main():
    repo, root = sys.argv[1], sys.argv[2]
    rp = open(f"{repo}/lib/src/types/relative_path.rs").read()
    ids = open(f"{repo}/lib/src/types/node_ids.rs").read()
    m = re.search(r"pub enum ReferenceTypeId \{(.*?)\n\}", ids, re.S)
    if not m:
        print("cannot find enum ReferenceTypeId"); return 1
    enum = dict((n, int(v)) for n, v in re.findall(r"(\w+)\s*=\s*(\d+)\s*,", m.group(1)))
    m = re.search(r"pub fn default_node_resolver.*?\n    \}\n", rp, re.S)
    if not m:
        print("cannot find default_node_resolver"); return 1
    body = m.group(0)
    name_to_id = re.findall(r'"(\w+)"\s*=>\s*ReferenceTypeId::(\w+)\.into\(\)', body)
    # everything in the `namespace == 0` match must be one of these arms or the fall-through
    arms = re.findall(r"=>", body[body.index("match browse_name"):body.index("} else {")])
    if len(arms) != len(name_to_id) + 1:
        print(f"default_node_resolver: {len(arms)} arms but {len(name_to_id)} recognised"); return 1
    m = re.search(r"fn id_from_reference_type.*?\n    \}\n", rp, re.S)
    if not m:
        print("cannot find id_from_reference_type"); return 1
    body2 = m.group(0)
    id_to_name = re.findall(r'id if id == ReferenceTypeId::(\w+) as u32 =>\s*\{?\s*"(\w+)"', body2)
    arms2 = re.findall(r"=>", body2)
    if len(arms2) != len(id_to_name) + 1:
        print(f"id_from_reference_type: {len(arms2)} arms but {len(id_to_name)} recognised"); return 1
    for _, e in name_to_id:
        if e not in enum:
            print("unknown ReferenceTypeId::" + e); return 1
    for e, _ in id_to_name:
        if e not in enum:
            print("unknown ReferenceTypeId::" + e); return 1
    m = re.search(r'const BROWSE_NAME_RESERVED_CHARS: &str = "([^"]*)";', rp)
    if not m:
        print("cannot find BROWSE_NAME_RESERVED_CHARS"); return 1
    reserved = m.group(1)
    consts = dict(re.findall(r"const (MAX_TOKEN_LEN|MAX_ELEMENTS): usize = (\d+);", rp))
    if set(consts) != {"MAX_TOKEN_LEN", "MAX_ELEMENTS"}:
        print("cannot find MAX_TOKEN_LEN / MAX_ELEMENTS"); return 1
    # ---- guards and use sites (round 3): everything below is pinned by `example`s at the end of Model/C05.lean, so a
    # change of a comparison, a delimiter, a regex or a flag row regenerates a different constant and breaks the build
    def lean_str(t):
        return '"' + t.replace("\\", "\\\\").replace('"', '\\"') + '"'
    regexes = re.findall(r'Regex::new\(r"([^"]*)"\)', rp)
    if len(regexes) != 2:
        print(f"expected 2 regexes, found {len(regexes)}"); return 1
    re_elem, re_target = regexes
    if "reftype" not in re_elem or "reftype" in re_target:
        print("regex order changed"); return 1
    code = re.sub(r"//[^\n]*", "", rp)   # no comments
    tok_uses = re.findall(r"token\.len\(\)\s*(\S+)\s*Self::MAX_TOKEN_LEN\s*\{\s*(?:error!\([^;]*\);\s*)?(break|return Err\(\(\)\))", code)
    if len(tok_uses) != 1 or len(re.findall(r"MAX_TOKEN_LEN", code)) != 2:
        print(f"MAX_TOKEN_LEN: unexpected use sites {tok_uses}"); return 1
    el_uses = re.findall(r"elements\.len\(\)\s*(\S+)\s*Self::MAX_ELEMENTS\s*\{\s*(?:error!\([^;]*\);\s*)?(break|return Err\(\(\)\))", code)
    if len(el_uses) != 2 or len(re.findall(r"MAX_ELEMENTS", code)) != 3:
        print(f"MAX_ELEMENTS: unexpected use sites {el_uses}"); return 1
    m = re.search(r"match c \{\s*'(.)' => \{\s*escaped_char = true;\s*\}\s*((?:'.'\s*\|?\s*)+)=> \{\s*if !token\.is_empty\(\) \{", code)
    if not m:
        print("cannot read the tokenizer's match"); return 1
    esc_char, delims = m.group(1), re.findall(r"'(.)'", m.group(2))
    if not re.search(r'fn escape_browse_name.*?BROWSE_NAME_RESERVED_CHARS\.chars\(\)\.for_each\(\|c\| \{\s*result = result\.replace\(c, &format!\("&\{\}", c\)\);', code, re.S) or \
       not re.search(r'fn unescape_browse_name.*?BROWSE_NAME_RESERVED_CHARS\.chars\(\)\.for_each\(\|c\| \{\s*result = result\.replace\(&format!\("&\{\}", c\), &c\.to_string\(\)\);', code, re.S):
        print("escape/unescape folds changed shape"); return 1
    short = re.findall(r'"([/.])" => \(ReferenceTypeId::(\w+)\.into\(\), (true|false), (true|false)\)', code)
    if [c for c, *_ in short] != ["/", "."]:
        print(f"short reference forms: {short}"); return 1
    flags = re.findall(r'"([#!]+)" => \((true|false), (true|false)\)', code)
    m = re.search(r'match flags\.as_str\(\) \{(.*?)\}\s*\} else \{\s*\((true|false), (true|false)\)', code, re.S)
    if not m or len(re.findall(r"=>", m.group(1))) != len(flags) + 1:
        print("flags table changed shape"); return 1
    no_flags = (m.group(2), m.group(3))
    if not re.search(r"pub fn default_node_resolver[^{]*\{\s*let node_id = if namespace == 0 \{\s*match browse_name", code):
        print("default_node_resolver: the table's namespace condition changed"); return 1
    if not re.search(r"Identifier::Numeric\(id\) => \{\s*if node_id\.namespace == 0 \{\s*Self::id_from_reference_type\(\*id\)\s*\} else \{\s*None", code):
        print("default_browse_name_resolver: the numeric arm changed"); return 1
    m = re.search(r"let always_use_namespace = (true|false);", code)
    if not m:
        print("always_use_namespace not found"); return 1
    always_ns = m.group(1)
    m = re.search(r'if namespace == "0" \|\| namespace\.is_empty\(\) \{\s*node_resolver\(0, browse_name\)\s*\} else if let Ok\(namespace\) = namespace\.parse::<(\w+)>\(\)', code)
    m2 = re.search(r'fn target_name.*?namespace\.as_str\(\)\.parse::<(\w+)>\(\)', code, re.S)
    if not m or not m2:
        print("namespace index parsing changed shape"); return 1
    ns_types = (m.group(1), m2.group(1))
    out = ["-- GENERATED by tools/translate/reftypes.py from lib/src/types/relative_path.rs and node_ids.rs — do not edit",
           "namespace OpcuaVerif.Generated.RefTypes", "",
           "/-- `default_node_resolver`, namespace 0: browse name → numeric reference type id -/",
           "def nameToId : List (List Char × Nat) := ["]
    out += ["  (%s, %d)," % (chars(n), enum[e]) for n, e in name_to_id]
    out[-1] = out[-1].rstrip(",") + "]"
    out += ["", "/-- `id_from_reference_type`: numeric id → browse name -/", "def idToName : List (Nat × List Char) := ["]
    out += ["  (%d, %s)," % (enum[e], chars(n)) for e, n in id_to_name]
    out[-1] = out[-1].rstrip(",") + "]"
    out += ["", "def hierarchicalReferences : Nat := %d" % enum["HierarchicalReferences"],
            "def aggregates : Nat := %d" % enum["Aggregates"],
            "", "/-- `BROWSE_NAME_RESERVED_CHARS`, in the order the escape folds use them -/",
            "def reserved : List Char := " + chars(reserved),
            "def maxTokenLen : Nat := " + consts["MAX_TOKEN_LEN"],
            "def maxElements : Nat := " + consts["MAX_ELEMENTS"],
            "", "/-! guards and use sites -/",
            "/-- the element regex of `RelativePathElement::from_str` -/",
            "def reElem : String := " + lean_str(re_elem),
            "/-- the regex of `target_name` -/",
            "def reTarget : String := " + lean_str(re_target),
            "/-- `token.len() <cmp> MAX_TOKEN_LEN` and what follows (the only use of the constant) -/",
            "def tokenLenGuard : String × String := (%s, %s)" % (lean_str(tok_uses[0][0]), lean_str(tok_uses[0][1])),
            "/-- `elements.len() <cmp> MAX_ELEMENTS`: inside the loop, after the loop (the only uses) -/",
            "def elementsGuards : List (String × String) := [%s]" % ", ".join("(%s, %s)" % (lean_str(a), lean_str(c)) for a, c in el_uses),
            "/-- the tokenizer: the escape character and the characters that start a new token -/",
            "def escapeChar : Char := '%s'" % esc_char,
            "def delims : List Char := " + chars(delims),
            "/-- `/` and `.`: reference type, include_subtypes, is_inverse -/",
            "def shortForms : List (Char × Nat × Bool × Bool) := [%s]" % ", ".join("('%s', %d, %s, %s)" % (c, enum[e], i, v) for c, e, i, v in short),
            "/-- flags inside `<…>`: include_subtypes, is_inverse; and the value without flags -/",
            "def flagRows : List (List Char × Bool × Bool) := [%s]" % ", ".join("(%s, %s, %s)" % (chars(f), i, v) for f, i, v in flags),
            "def noFlags : Bool × Bool := (%s, %s)" % no_flags,
            "/-- the printer's `always_use_namespace` -/",
            "def alwaysUseNamespace : Bool := " + always_ns,
            "/-- integer type of the namespace index: reference type, target name -/",
            "def nsIndexTypes : String × String := (%s, %s)" % (lean_str(ns_types[0]), lean_str(ns_types[1])),
            "", "end OpcuaVerif.Generated.RefTypes", ""]
    text = "\n".join(out)
    path = f"{root}/lean/OpcuaVerif/Generated/RefTypes.lean"
    os.makedirs(os.path.dirname(path), exist_ok=True)
    try:
        same = open(path).read() == text
    except FileNotFoundError:
        same = False
    if not same:
        open(path, "w").write(text)
    print(f"reftypes: {len(name_to_id)} names, {len(id_to_name)} ids, reserved={reserved!r}, limits {consts}")
    if len(name_to_id) < 20 or len(id_to_name) < 20:
        print("self-test: suspiciously few table entries"); return 1
    return 0

if __name__ == "__main__":
    sys.exit(main())
