#!/usr/bin/env python3
"""Translator T2 (crypto part): python3 crypto_policy.py <REPO> <VERIF_ROOT>

Reads lib/src/crypto/security_policy.rs and lib/src/crypto/mod.rs and regenerates
lean/OpcuaVerif/Generated/CryptoPolicy.lean: per security policy the constants and match arms that
the hand-written models of C13 / C17 / C18 copy (derived signature key length, asymmetric key length
range, asymmetric signature algorithm URI, encrypting key / block lengths, P_hash digest, RSA
sign / verify function).  The proofs files state `model_matches_source_*` against this file, so a
changed constant in the source breaks a proof obligation instead of silently leaving a stale model.
Deliberately dumb: regular expressions, no type inference.  Exit != 0 = cannot read the source."""
import os, re, sys

POLICIES = ["Basic128Rsa15", "Basic256", "Basic256Sha256", "Aes128Sha256RsaOaep", "Aes256Sha256RsaPss"]


def die(msg):
    print("crypto_policy translator: " + msg)
    sys.exit(1)


def fn_body(src, name):
    m = re.search(r"fn %s\s*\(" % re.escape(name), src)
    if not m:
        die("function %s not found" % name)
    i = src.index("{", m.end())
    depth, j = 0, i
    while j < len(src):
        if src[j] == "{":
            depth += 1
        elif src[j] == "}":
            depth -= 1
            if depth == 0:
                return src[i:j + 1]
        j += 1
    die("unbalanced braces in %s" % name)


def group_arms(body, rhs_re):
    """arms `SecurityPolicy::A | SecurityPolicy::B => <rhs>` → {policy: captured groups}"""
    out = {}
    for m in re.finditer(r"((?:SecurityPolicy::\w+\s*\|?\s*)+)=>\s*\{?\s*" + rhs_re, body):
        for p in re.findall(r"SecurityPolicy::(\w+)", m.group(1)):
            out[p] = m.groups()[1:]
    return out


def main():
    if len(sys.argv) != 3:
        die("usage: crypto_policy.py <REPO> <VERIF_ROOT>")
    repo, root = sys.argv[1], sys.argv[2]
    try:
        sp = open(os.path.join(repo, "lib/src/crypto/security_policy.rs")).read()
        cm = open(os.path.join(repo, "lib/src/crypto/mod.rs")).read()
    except OSError as e:
        die(str(e))
    # strip line comments
    sp_nc = re.sub(r"(?m)^\s*//[^\n]*$", "", sp)
    cm_nc = re.sub(r"(?m)^\s*//[^\n]*$", "", cm)

    algs = dict(re.findall(r'pub const (\w+): &str\s*=\s*"([^"]+)";', cm_nc))
    mods = {}
    for m in re.finditer(r"\nmod (\w+) \{(.*?)\n\}", sp_nc, re.S):
        consts = dict((k, v.strip()) for k, v in re.findall(r"pub const (\w+):[^=]+=\s*([^;]+);", m.group(2)))
        mods[m.group(1)] = consts
    if len(mods) < 5:
        die("expected 5 policy modules, found %d" % len(mods))

    def per_policy(fn, const):
        body = fn_body(sp_nc, fn)
        arms = dict(re.findall(r"SecurityPolicy::(\w+)\s*=>\s*\{?\s*(\w+)::%s" % const, body))
        res = {}
        for p in POLICIES:
            if p not in arms or arms[p] not in mods or const not in mods[arms[p]]:
                die("%s: no arm / constant for %s" % (fn, p))
            res[p] = mods[arms[p]][const]
        extra = set(arms) - set(POLICIES)
        if extra:
            die("%s: unexpected policies %s" % (fn, sorted(extra)))
        return res

    sig_bits = per_policy("derived_signature_key_size", "DERIVED_SIGNATURE_KEY_LENGTH")
    if not re.search(r"length\s*/\s*8", fn_body(sp_nc, "derived_signature_key_size")):
        die("derived_signature_key_size no longer divides by 8")
    key_len = per_policy("min_max_asymmetric_keylength", "ASYMMETRIC_KEY_LENGTH")
    sig_alg = per_policy("asymmetric_signature_algorithm", "ASYMMETRIC_SIGNATURE_ALGORITHM")
    enc_alg = per_policy("asymmetric_encryption_algorithm", "ASYMMETRIC_ENCRYPTION_ALGORITHM")
    enc_pad = group_arms(fn_body(sp_nc, "asymmetric_encryption_padding"), r"RsaPadding::(\w+)")
    if sorted(enc_pad) != sorted(POLICIES):
        die("asymmetric_encryption_padding: arms cover %s" % sorted(enc_pad))
    # decrypt_user_identity_token_password: algorithm constant -> padding
    try:
        ui = re.sub(r"(?m)^\s*//[^\n]*$", "", open(os.path.join(repo, "lib/src/crypto/user_identity.rs")).read())
    except OSError as e:
        die(str(e))
    tok_pad = re.findall(r"super::algorithms::(\w+)\s*=>\s*RsaPadding::(\w+)", fn_body(ui, "decrypt_user_identity_token_password"))
    if len(tok_pad) != 3:
        die("decrypt_user_identity_token_password: expected 3 algorithm arms, found %d" % len(tok_pad))

    enc = group_arms(fn_body(sp_nc, "make_secure_channel_keys"), r"\((\d+),\s*(\d+)\)")
    dig = group_arms(fn_body(sp_nc, "prf"), r"openssl_hash::MessageDigest::(\w+)\(\)")
    sign = group_arms(fn_body(sp_nc, "asymmetric_sign"), r"signing_key\.(\w+)\(")
    verify = group_arms(fn_body(sp_nc, "asymmetric_verify_signature"), r"verification_key\.(\w+)\(")
    for name, d in (("make_secure_channel_keys", enc), ("prf", dig), ("asymmetric_sign", sign), ("asymmetric_verify_signature", verify)):
        if sorted(d) != sorted(POLICIES):
            die("%s: arms cover %s, expected exactly the five policies" % (name, sorted(d)))

    # ---- shapes: guards, argument orders and conditions the hand-written models copy (normalised text)
    def norm(t):
        return re.sub(r"\s+", "", t)

    def read(rel):
        try:
            return re.sub(r"(?m)^\s*//[^\n]*$", "", open(os.path.join(repo, rel)).read())
        except OSError as e:
            die(str(e))

    hash_rs = read("lib/src/crypto/hash.rs")
    pkey_rs = read("lib/src/crypto/pkey.rs")
    chan_rs = read("lib/src/core/comms/secure_channel.rs")
    store_rs = read("lib/src/crypto/certificate_store.rs")
    shape = []

    def grab(key, body, regex, fn):
        ms = re.findall(regex, body, re.S)
        if not ms:
            die("%s: pattern for %s not found" % (fn, key))
        shape.append((key, "|".join(norm(m if isinstance(m, str) else ",".join(m)) for m in ms)))

    b = fn_body(sp_nc, "make_secure_channel_keys")
    grab("keys.prf_calls", b, r"self\.prf\(([^;]*?)\);", "make_secure_channel_keys")
    b = fn_body(chan_rs, "derive_keys")
    grab("derive.remote_then_local", b, r"self\.(remote_keys|local_keys) = Some\(\s*self\.security_policy\s*\.make_secure_channel_keys\(([^)]*)\)", "derive_keys")
    b = fn_body(sp_nc, "prf")
    grab("prf.slice", b, r"hash::p_sha\(([^;]*)\);\s*result\[([^\]]*)\]", "prf")
    b = fn_body(hash_rs, "p_sha")
    grab("p_sha.loop", b, r"while ([^{]*)\{", "p_sha")
    grab("p_sha.a_next", b, r"let a_next = ([^;]*);", "p_sha")
    grab("p_sha.block", b, r"hmac\.extend\(([^)]*)\);\s*hmac\.extend_from_slice\(([^)]*)\);", "p_sha")
    grab("p_sha.truncate", b, r"result\.truncate\(([^)]*)\)", "p_sha")
    b = fn_body(hash_rs, "hmac_vec")
    grab("hmac_vec.empty_key", b, r"let key = ([^;]*);", "hmac_vec")
    b = fn_body(pkey_rs, "plain_text_block_size")
    grab("ptbs.arms", b, r"RsaPadding::(\w+) => self\.size\(\) - (\d+)", "plain_text_block_size")
    b = fn_body(pkey_rs, "calculate_cipher_text_size")
    grab("ctsize.count", b, r"let block_count = (.*?);\s*block_count \* ([^\n}]*)", "calculate_cipher_text_size")
    b = fn_body(ui, "legacy_password_decrypt")
    grab("decrypt.guards", b, r"\bif ([^{]*)\{", "legacy_password_decrypt")
    grab("decrypt.nonce_begin", b, r"let nonce_begin = ([^;]*);", "legacy_password_decrypt")
    grab("decrypt.slices", b, r"&dst\[([^\]]*)\]", "legacy_password_decrypt")
    b = fn_body(ui, "legacy_password_encrypt")
    grab("encrypt.size_and_length_field", b, r"let plaintext_size = ([^;]*);.*?write_u32\(&mut src, ([^)]*\))", "legacy_password_encrypt")
    b = fn_body(cm_nc, "concat_data_and_nonce")
    grab("concat.order", b, r"buffer\.extend_from_slice\((\w+)\)", "concat_data_and_nonce")
    b = fn_body(cm_nc, "create_signature_data")
    grab("create.guard_and_data", b, r"if ([^{]*)\{.*?concat_data_and_nonce\(([^;]*)\);", "create_signature_data")
    b = fn_body(cm_nc, "verify_signature_data")
    grab("verify.data", b, r"concat_data_and_nonce\(([^;]*)\);", "verify_signature_data")
    b = fn_body(store_rs, "validate_or_reject_application_instance_cert")
    grab("reject.not_stored_for", b, r"match result \{(.*?)=>", "validate_or_reject_application_instance_cert")
    b = fn_body(store_rs, "validate_application_instance_cert")
    grab("validate.returns_in_order", b, r"return (StatusCode::\w+|status_code)", "validate_application_instance_cert")
    grab("validate.conditions_in_order", b, r"\bif ([^{]*)\{", "validate_application_instance_cert")
    b = fn_body(sp_nc, "is_valid_keylength")
    grab("keylength.range", b, r"(keylength [^\n]*)", "is_valid_keylength")

    def nat(s):
        if not re.fullmatch(r"\d+", s):
            die("not a number: %r" % s)
        return s

    L = ["-- GENERATED by tools/translate/crypto_policy.py from lib/src/crypto/security_policy.rs and mod.rs — do not edit",
         "namespace OpcuaVerif.Generated.CryptoPolicy", ""]
    L.append("/-- `DERIVED_SIGNATURE_KEY_LENGTH` (bits) selected by `derived_signature_key_size`, which divides by 8 -/")
    L.append("def derivedSigKeyBits : List (String × Nat) := [" + ", ".join('("%s", %s)' % (p, nat(sig_bits[p])) for p in POLICIES) + "]")
    L.append("")
    L.append("/-- `ASYMMETRIC_KEY_LENGTH` (min, max bits) selected by `min_max_asymmetric_keylength` -/")
    kl = []
    for p in POLICIES:
        m = re.fullmatch(r"\((\d+),\s*(\d+)\)", key_len[p])
        if not m:
            die("key length of %s: %r" % (p, key_len[p]))
        kl.append('("%s", %s, %s)' % (p, m.group(1), m.group(2)))
    L.append("def asymKeyLen : List (String × Nat × Nat) := [" + ", ".join(kl) + "]")
    L.append("")
    L.append("/-- `ASYMMETRIC_SIGNATURE_ALGORITHM` URI selected by `asymmetric_signature_algorithm` -/")
    su = []
    for p in POLICIES:
        if sig_alg[p] not in algs:
            die("unknown algorithm constant %s" % sig_alg[p])
        su.append('("%s", "%s")' % (p, algs[sig_alg[p]]))
    L.append("def sigUri : List (String × String) := [" + ", ".join(su) + "]")
    L.append("")
    L.append("/-- `(encrypting_key_length, encrypting_block_size)` arms of `make_secure_channel_keys` -/")
    L.append("def encLens : List (String × Nat × Nat) := [" + ", ".join('("%s", %s, %s)' % (p, enc[p][0], enc[p][1]) for p in POLICIES) + "]")
    L.append("")
    L.append("/-- digest arms of `prf` -/")
    L.append("def prfDigest : List (String × String) := [" + ", ".join('("%s", "%s")' % (p, dig[p][0]) for p in POLICIES) + "]")
    L.append("")
    L.append("/-- `PrivateKey` method per arm of `asymmetric_sign` / `PublicKey` method per arm of `asymmetric_verify_signature` -/")
    L.append("def signFn : List (String × String) := [" + ", ".join('("%s", "%s")' % (p, sign[p][0]) for p in POLICIES) + "]")
    L.append("def verifyFn : List (String × String) := [" + ", ".join('("%s", "%s")' % (p, verify[p][0]) for p in POLICIES) + "]")
    L.append("")
    L.append("/-- `ASYMMETRIC_ENCRYPTION_ALGORITHM` URI selected by `asymmetric_encryption_algorithm` -/")
    eu = []
    for p in POLICIES:
        if enc_alg[p] not in algs:
            die("unknown algorithm constant %s" % enc_alg[p])
        eu.append('("%s", "%s")' % (p, algs[enc_alg[p]]))
    L.append("def encUri : List (String × String) := [" + ", ".join(eu) + "]")
    L.append("/-- `RsaPadding` arms of `asymmetric_encryption_padding` -/")
    L.append("def encPadding : List (String × String) := [" + ", ".join('("%s", "%s")' % (p, enc_pad[p][0]) for p in POLICIES) + "]")
    L.append("/-- algorithm URI → `RsaPadding` arms of `decrypt_user_identity_token_password` -/")
    for a, _ in tok_pad:
        if a not in algs:
            die("unknown algorithm constant %s" % a)
    L.append("def tokenUriPadding : List (String × String) := [" + ", ".join('("%s", "%s")' % (algs[a], pd) for a, pd in tok_pad) + "]")
    L.append("")
    L.append("/-- normalised source text of the guards, argument orders and conditions the hand-written models copy -/")
    L.append("def shape : List (String × String) := [")
    L.append(",\n".join('  ("%s", "%s")' % (k, v.replace("\\", "\\\\").replace('"', '\\"')) for k, v in shape))
    L.append("]")
    L.append("")
    L.append("def lookup {α : Type} (t : List (String × α)) (k : String) : Option α := (t.find? (·.1 == k)).map (·.2)")
    L.append("")
    L.append("end OpcuaVerif.Generated.CryptoPolicy")
    text = "\n".join(L) + "\n"
    path = os.path.join(root, "lean/OpcuaVerif/Generated/CryptoPolicy.lean")
    os.makedirs(os.path.dirname(path), exist_ok=True)
    try:
        same = open(path).read() == text
    except OSError:
        same = False
    if not same:
        with open(path, "w") as f:
            f.write(text)
    print("crypto_policy: 5 policies; %d algorithm constants; derived key bits %s; key ranges %s%s" % (
        len(algs), [sig_bits[p] for p in POLICIES], [key_len[p] for p in POLICIES], "" if same else " (rewritten)"))


if __name__ == "__main__":
    main()
