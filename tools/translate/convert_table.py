#!/usr/bin/env python3
"""T3 (DESIGN §3.2): parses the match arms of `Variant::convert` and `Variant::cast`
(lib/src/types/variant.rs) for the 11 numeric built-in types into a Lean table, together with the
normalised text of `cast_to_integer!`, `cast_to_bool!` and the two rounding lines.

    python3 convert_table.py <REPO> <VERIF_ROOT>      rewrites lean/OpcuaVerif/Generated/ConvertTable.lean
    python3 convert_table.py --selftest <REPO>        compares the counts with the pinned summary

Deliberately dumb: brace matching + regular expressions on whitespace-normalised arm bodies.  An arm
between two numeric types that it cannot classify makes it exit 1 ("translator cannot read the
source"), which bin/check reports as a failed obligation.
"""
import os, re, sys

TYPES = ["Boolean", "SByte", "Byte", "Int16", "UInt16", "Int32", "UInt32", "Int64", "UInt64", "Float", "Double"]
RUST = {"Boolean": "bool", "SByte": "i8", "Byte": "u8", "Int16": "i16", "UInt16": "u16", "Int32": "i32",
        "UInt32": "u32", "Int64": "i64", "UInt64": "u64", "Float": "f32", "Double": "f64"}
IDX = {t: i for i, t in enumerate(TYPES)}
CK = {"none": 0, "wrap": 1, "guardNeg": 2, "checked": 3, "toFloat": 4, "fwiden": 5}
XK = {"none": 0, "toBool": 1, "toInt": 2, "narrow": 3}


class Unreadable(Exception):
    pass


def strip_comments(src):
    return re.sub(r"//[^\n]*", "", src)


def block_after(src, start):
    """text between the brace at/after `start` and its matching brace"""
    i = src.index("{", start)
    depth, j = 0, i
    while j < len(src):
        if src[j] == "{":
            depth += 1
        elif src[j] == "}":
            depth -= 1
            if depth == 0:
                return src[i + 1:j], j + 1
        j += 1
    raise Unreadable("unbalanced braces")


def split_arms(body):
    """top-level `PATTERN => EXPR` arms of a match body"""
    arms, i, n = [], 0, len(body)
    while i < n:
        m = re.compile(r"\s*([^=]+?)\s*=>\s*", re.S).match(body, i)
        if not m:
            if body[i:].strip():
                raise Unreadable("cannot split arms near: " + body[i:i + 60])
            break
        pat = m.group(1).strip()
        j = m.end()
        if body[j] == "{":
            inner, k = block_after(body, j)
            expr = "{" + inner + "}"
            while k < n and body[k] in " \t\r\n,":
                k += 1
        else:
            depth, k = 0, j
            while k < n:
                c = body[k]
                if c in "({[":
                    depth += 1
                elif c in ")}]":
                    depth -= 1
                elif c == "," and depth == 0:
                    break
                k += 1
            expr = body[j:k]
            k += 1
        arms.append((pat, " ".join(expr.split())))
        i = k
    return arms


def unbrace(e):
    e = e.strip()
    while e.startswith("{") and e.endswith("}"):
        e = e[1:-1].strip()
    return e


def target_arms(expr):
    """arms of the `match target_type { … }` inside a source arm"""
    e = unbrace(expr)
    m = re.search(r"match target_type\s*\{", e)
    if not m:
        return None, e
    inner, _ = block_after(e, m.start())
    return split_arms(inner), e[:m.start()]


def classify_convert(src_t, dst_t, e):
    r = RUST[dst_t]
    e = unbrace(e)
    if e == "Variant::Empty":
        return "none"
    if e == f"(v as {r}).into()":
        if dst_t in ("Float", "Double"):
            return "fwiden" if src_t == "Float" else "toFloat"
        return "wrap"
    if e == f"((v as u8) as {r}).into()" and src_t == "Boolean" and dst_t in ("Float", "Double"):
        return "toFloat"
    if re.fullmatch(rf"if v < 0 \{{ Variant::Empty \}} else \{{ \(v as {r}\)\.into\(\) \}}", e):
        return "guardNeg"
    if re.fullmatch(rf"{r}::try_from\(v\) ?\.map\(Variant::from\) ?\.unwrap_or\(Variant::Empty\)", e):
        return "checked"
    raise Unreadable(f"convert {src_t} -> {dst_t}: cannot classify `{e}`")


def classify_cast(src_t, dst_t, e):
    r, s = RUST[dst_t], RUST[src_t]
    e = unbrace(e)
    if e == "Variant::Empty":
        return "none"
    if src_t == "Boolean":
        # `Variant::Byte(u8::from(v))` …: repeats what convert already did (unreachable)
        if re.fullmatch(rf"Variant::{dst_t}\({r}::from\(v\)\)", e):
            return "none"
    # integer sources compare the value itself, float sources its truncation
    if dst_t == "Boolean" and e == ("cast_to_bool!(v as i64)" if src_t in ("Float", "Double") else "cast_to_bool!(v)"):
        return "toBool"
    m = re.fullmatch(r"cast_to_integer!\((v|vt), (\w+), (\w+)\)", e)
    if m and m.group(2) == s and m.group(3) == r and (m.group(1) == "vt") == (src_t in ("Float", "Double")):
        return "toInt"
    if e == "(v as f32).into()" and src_t == "Double" and dst_t == "Float":
        return "narrow"
    raise Unreadable(f"cast {src_t} -> {dst_t}: cannot classify `{e}`")


def macro_text(src, name):
    m = re.search(rf"macro_rules!\s*{name}\s*", src)
    if not m:
        raise Unreadable(f"macro {name} not found")
    body, _ = block_after(src, m.end() - 1)
    return " ".join(body.split())


def translate(repo):
    src = strip_comments(open(os.path.join(repo, "lib/src/types/variant.rs")).read())
    out = {"convert": [], "cast": [], "rounding": []}
    for fn, classify in (("convert", classify_convert), ("cast", classify_cast)):
        m = re.search(rf"pub fn {fn}\(&self, target_type: VariantTypeId\) -> Variant", src)
        if not m:
            raise Unreadable(f"fn {fn} not found")
        body, _ = block_after(src, m.end())
        mm = re.search(r"match \*self\s*\{", body)
        if not mm:
            raise Unreadable(f"{fn}: `match *self` not found")
        arms_src, _ = block_after(body, mm.start())
        seen = set()
        for pat, expr in split_arms(arms_src):
            pm = re.fullmatch(r"Variant::(\w+)\((?:ref )?\w+\)", pat)
            if not pm or pm.group(1) not in IDX:
                continue
            s = pm.group(1)
            seen.add(s)
            arms, pre = target_arms(expr)
            if arms is None:
                raise Unreadable(f"{fn} {s}: no `match target_type`")
            if fn == "cast" and s in ("Float", "Double"):
                rm = re.search(r"let vt = ([^;]+);", pre)
                if not rm:
                    raise Unreadable(f"cast {s}: rounding line not found")
                out["rounding"].append((s, " ".join(rm.group(1).split())))
            for tpat, texpr in arms:
                for alt in tpat.split("|"):
                    tm = re.fullmatch(r"VariantTypeId::(\w+)", alt.strip())
                    if not tm or tm.group(1) not in IDX:
                        continue
                    k = classify(s, tm.group(1), texpr)
                    if k != "none":
                        out[fn].append((s, tm.group(1), k))
        if fn == "cast" and not {"Float", "Double"} <= seen:
            raise Unreadable("cast: Float/Double arms not found")
    out["cast_to_integer"] = macro_text(src, "cast_to_integer")
    out["cast_to_bool"] = macro_text(src, "cast_to_bool")
    # the early return of convert for identical types
    if not re.search(r"if self\.type_id\(\) == target_type \{\s*return self\.clone\(\);\s*\}", src):
        raise Unreadable("convert: identity shortcut not found")
    if not re.search(r"let result = self\.convert\(target_type\);\s*if result == Variant::Empty \{", src):
        raise Unreadable("cast: `convert first` prologue not found")
    # … and the result of a successful implicit conversion is returned unchanged
    m = re.search(r"pub fn cast\(&self, target_type: VariantTypeId\) -> Variant", src)
    cast_body, _ = block_after(src, m.end())
    if not re.search(r"\}\s*else\s*\{\s*result\s*\}\s*$", cast_body.strip()):
        raise Unreadable("cast: `else { result }` epilogue not found")
    return out


def lean_str(s):
    return '"' + s.replace("\\", "\\\\").replace('"', '\\"') + '"'


def render(t):
    conv = sorted((IDX[s], IDX[d], CK[k]) for s, d, k in t["convert"])
    cast = sorted((IDX[s], IDX[d], XK[k]) for s, d, k in t["cast"])
    rnd = sorted((IDX[s], e) for s, e in t["rounding"])
    L = ["-- GENERATED by tools/translate/convert_table.py from lib/src/types/variant.rs — do not edit",
         "/-! Match arms of `Variant::convert` / `Variant::cast` between the numeric built-in types.",
         "Types are numbered Boolean 0, SByte 1, Byte 2, Int16 3, UInt16 4, Int32 5, UInt32 6, Int64 7,",
         "UInt64 8, Float 9, Double 10.  Kinds of `convert`: wrap 1, guardNeg 2, checked 3, toFloat 4,",
         "fwiden 5; of `cast`: toBool 1, toInt 2, narrow 3 (absent = `Variant::Empty`). -/",
         "namespace OpcuaVerif.Generated.ConvertTable", "",
         "def convertArms : List (Nat × Nat × Nat) := ["]
    L += ["  " + ", ".join(f"({a}, {b}, {c})" for a, b, c in conv[i:i + 8]) + ("," if i + 8 < len(conv) else "")
          for i in range(0, len(conv), 8)]
    L += ["]", "", "def castArms : List (Nat × Nat × Nat) := ["]
    L += ["  " + ", ".join(f"({a}, {b}, {c})" for a, b, c in cast[i:i + 8]) + ("," if i + 8 < len(cast) else "")
          for i in range(0, len(cast), 8)]
    L += ["]", "", "/-- `let vt = …;` in the Float / Double arms of `cast` -/",
          "def rounding : List (Nat × String) := [" + ", ".join(f"({i}, {lean_str(e)})" for i, e in rnd) + "]", "",
          "def castToIntegerMacro : String :=", "  " + lean_str(t["cast_to_integer"]), "",
          "def castToBoolMacro : String :=", "  " + lean_str(t["cast_to_bool"]), "",
          "end OpcuaVerif.Generated.ConvertTable", ""]
    return "\n".join(L)


EXPECTED = {"convert": 55, "cast": 55}   # pinned tree (after the C06 fixes): numbers of non-Empty arms


def main():
    args = sys.argv[1:]
    try:
        if args and args[0] == "--selftest":
            t = translate(args[1])
            got = {"convert": len(t["convert"]), "cast": len(t["cast"])}
            print("selftest", got)
            return 0 if got == EXPECTED else 1
        repo, root = args[0], args[1]
        t = translate(repo)
    except Unreadable as e:
        print("translator cannot read the source:", e)
        return 1
    path = os.path.join(root, "lean/OpcuaVerif/Generated/ConvertTable.lean")
    text = render(t)
    os.makedirs(os.path.dirname(path), exist_ok=True)
    old = open(path).read() if os.path.exists(path) else None
    if old != text:
        open(path, "w").write(text)
    print(f"convert arms {len(t['convert'])}, cast arms {len(t['cast'])}, rounding {sorted(t['rounding'])}")
    return 0


if __name__ == "__main__":
    sys.exit(main())
