#!/usr/bin/env python3
"""T2 (C33): regenerate the list of potential panic sites on the modelled node-management paths.

usage: c33_panic_sites.py <REPO> <VERIF_ROOT>

Scans (token level, comments and string literals removed) the functions the C33 model covers and
emits lean/OpcuaVerif/Generated/C33Sites.lean with one entry per `panic!`, `unreachable!`, `todo!`,
`unimplemented!`, `assert!`/`assert_eq!`/`assert_ne!`, `.unwrap()`, `.expect(` and slice/array index
expression: (file, function, kind, ordinal of that kind inside the function).
Proofs/C33Sites.lean must classify every entry; a new site is an unclassified obligation.
Exit != 0 when a file or function can no longer be found (the translator cannot read the source).
"""
import os, re, sys

SCOPE = {
    "lib/src/server/services/node_management.rs": ["add_nodes", "add_references", "add_node", "add_reference", "create_node"],
    "lib/src/server/address_space/address_space.rs": ["insert", "assert_namespace", "namespace_exists", "node_exists",
                                                       "is_valid_type_definition", "set_node_type", "insert_reference",
                                                       "has_reference", "find_node"],
    "lib/src/server/address_space/references.rs": ["insert", "insert_reference", "has_reference"],
    # `create_node` builds the node from the client's attributes
    "lib/src/server/address_space/object.rs": ["from_attributes"],
    "lib/src/server/address_space/variable.rs": ["from_attributes"],
    "lib/src/server/address_space/method.rs": ["from_attributes"],
    "lib/src/server/address_space/object_type.rs": ["from_attributes"],
    "lib/src/server/address_space/variable_type.rs": ["from_attributes"],
    "lib/src/server/address_space/reference_type.rs": ["from_attributes"],
    "lib/src/server/address_space/data_type.rs": ["from_attributes"],
    "lib/src/server/address_space/view.rs": ["from_attributes"],
}

def strip(src):
    out, i, n = [], 0, len(src)
    while i < n:
        c = src[i]
        if src.startswith("//", i):
            j = src.find("\n", i); i = n if j < 0 else j; continue
        if src.startswith("/*", i):
            j = src.find("*/", i); i = n if j < 0 else j + 2; continue
        if c == '"':
            j = i + 1
            while j < n and src[j] != '"':
                j += 2 if src[j] == "\\" else 1
            out.append('""'); i = j + 1; continue
        if c == "'" and i + 2 < n and (src[i + 2] == "'" or (src[i + 1] == "\\" and src.find("'", i + 2) - i <= 6)):
            j = src.find("'", i + 2 if src[i + 1] == "\\" else i + 1); out.append("' '"); i = j + 1; continue
        out.append(c); i += 1
    return "".join(out)

def function_body(src, name):
    m = re.search(r"\bfn\s+" + re.escape(name) + r"\s*(<[^{;]*?>)?\s*\(", src)
    if not m:
        return None
    i = src.find("{", m.end())
    # skip a where-clause etc.: first `{` after the signature's closing paren at depth 0
    depth, j = 0, m.end() - 1
    while j < len(src):
        if src[j] == "(":
            depth += 1
        elif src[j] == ")":
            depth -= 1
            if depth == 0:
                break
        j += 1
    i = src.find("{", j)
    depth, k = 0, i
    while k < len(src):
        if src[k] == "{":
            depth += 1
        elif src[k] == "}":
            depth -= 1
            if depth == 0:
                return src[i:k + 1]
        k += 1
    return None

KINDS = [
    ("panic", re.compile(r"\b(panic|unreachable|todo|unimplemented)!")),
    ("assert", re.compile(r"\b(assert|assert_eq|assert_ne)!")),
    ("unwrap", re.compile(r"\.unwrap\(\)")),
    ("expect", re.compile(r"\.expect\(")),
    # an index expression: identifier / `)` / `]` directly followed by `[`   (not `#[`, not `&[`, not `vec![`)
    ("index", re.compile(r"(?<![#&!\s(,=\[])(?<=[\w\)\]])\[(?!\s*\])")),
]

def main():
    repo, root = sys.argv[1], sys.argv[2]
    sites = []
    for rel, fns in SCOPE.items():
        path = os.path.join(repo, rel)
        if not os.path.exists(path):
            print(f"cannot read {rel}"); return 1
        src = strip(open(path).read())
        for fn in fns:
            body = function_body(src, fn)
            if body is None:
                print(f"function {fn} not found in {rel}"); return 1
            for kind, rx in KINDS:
                for k, _ in enumerate(rx.finditer(body)):
                    sites.append((rel.split("/")[-1], fn, kind, k))
    # ---- guards, not only sites: the order of the status codes each handler can answer with
    def status_order(rel, fn):
        src = strip(open(os.path.join(repo, rel)).read())
        body = function_body(src, fn)
        if body is None:
            return None
        return re.findall(r"StatusCode::(\w+)", body)
    nm = "lib/src/server/services/node_management.rs"
    orders = {fn: status_order(nm, fn) for fn in ["add_nodes", "add_node", "add_references", "add_reference"]}
    if any(v is None for v in orders.values()):
        print("node management handler not found"); return 1
    # ---- events/operator.rs: the operand-count table of `evaluate` and the operand indices each operator reads
    oprel = "lib/src/server/events/operator.rs"
    opsrc = strip(open(os.path.join(repo, oprel)).read())
    ev = function_body(opsrc, "evaluate")
    if ev is None or "let min_operands" not in ev:
        print("operator.rs: evaluate / min_operands table not found"); return 1
    blk = ev[ev.index("let min_operands"):]
    blk = blk[:blk.index("};")]
    table, default = [], None
    for m in re.finditer(r"((?:FilterOperator::\w+\s*\|?\s*)+|_)\s*=>\s*(\d+)", blk):
        if m.group(1).strip() == "_":
            default = int(m.group(2))
        else:
            for name in re.findall(r"FilterOperator::(\w+)", m.group(1)):
                table.append((name, int(m.group(2))))
    guard = re.search(r"if\s+operands\.len\(\)\s*<\s*min_operands\s*\{\s*return\s+Err", ev)
    if default is None or not guard:
        print("operator.rs: min_operands default arm or its guard not found"); return 1
    # the dispatch: which function each operator is evaluated by
    dispatch = re.findall(r"FilterOperator::(\w+)\s*=>\s*(\w+)\s*\(", ev[ev.index("};"):])
    opfns = sorted(set(f for _, f in dispatch))
    max_index, other_index = [], []
    for fn in opfns:
        body = function_body(opsrc, fn)
        if body is None:
            print(f"operator function {fn} not found"); return 1
        consts = [int(x) for x in re.findall(r"operands\[(\d+)\]", body)]
        others = [x.strip() for x in re.findall(r"operands\[([^\]]*)\]", body) if not x.strip().isdigit()]
        max_index.append((fn, max(consts) if consts else 0))
        other_index += [(fn, x) for x in others]
    vo = function_body(opsrc, "value_of")
    if vo is None:
        print("operator.rs: value_of not found"); return 1
    value_of_sites = [k for k, rx in KINDS for _ in rx.finditer(vo)]
    lines = ["-- GENERATED by tools/translate/c33_panic_sites.py from the repository source; do not edit",
             "namespace OpcuaVerif.C33", "",
             "/-- potential panic sites on the modelled node-management paths: (file, function, kind, ordinal) -/",
             "def panicSites : List (String × String × String × Nat) := ["]
    lines += [f'  ("{a}", "{b}", "{c}", {d}),' for (a, b, c, d) in sites]
    if sites:
        lines[-1] = lines[-1].rstrip(",")
    lines += ["]", ""]
    def lean_strs(xs):
        return "[" + ", ".join(f'"{x}"' for x in xs) + "]"
    lines += ["/-- status codes in the order they appear in each node-management handler -/"]
    for fn, v in orders.items():
        lines += [f"def statusOrder_{fn} : List String := {lean_strs(v)}"]
    lines += ["", "/-- `evaluate`: operand count demanded per operator before dispatch (guarded by `operands.len() < min_operands`) -/",
              "def minOperandsTable : List (String × Nat) := [" + ", ".join(f'("{a}", {b})' for a, b in table) + "]",
              f"def minOperandsDefault : Nat := {default}",
              "/-- `evaluate`: operator ↦ function that evaluates it -/",
              "def operatorDispatch : List (String × String) := [" + ", ".join(f'("{a}", "{b}")' for a, b in dispatch) + "]",
              "/-- operator function ↦ largest constant operand index it reads -/",
              "def operatorMaxIndex : List (String × Nat) := [" + ", ".join(f'("{a}", {b})' for a, b in max_index) + "]",
              "/-- operand index expressions that are not constants -/",
              "def operatorOtherIndex : List (String × String) := [" + ", ".join(f'("{a}", "{b}")' for a, b in other_index) + "]",
              "/-- potential panic sites left in `value_of` (kinds) -/",
              f"def valueOfSites : List String := {lean_strs(value_of_sites)}",
              "", "end OpcuaVerif.C33", ""]
    out = os.path.join(root, "lean/OpcuaVerif/Generated/C33Sites.lean")
    os.makedirs(os.path.dirname(out), exist_ok=True)
    text = "\n".join(lines)
    if not os.path.exists(out) or open(out).read() != text:
        open(out, "w").write(text)
    print(f"{len(table)} min_operands rows, {len(dispatch)} dispatch rows, {len(max_index)} operator functions; ", end="")
    print(f"{len(sites)} potential panic sites in {sum(len(v) for v in SCOPE.values())} functions of {len(SCOPE)} files")
    return 0

if __name__ == "__main__":
    sys.exit(main())
